(* Regex.v — regular expressions as Go's regexp package reads them, for the subset of syntax
   that YANG patterns use: a syntax tree, a parser from rune lists (regexp/syntax.Parse with the
   Perl flags of regexp.Compile, or the POSIX flags of regexp.CompilePOSIX), a matcher with
   Go's MatchString semantics (unanchored search) and a whole-string matcher.  Definitions
   only; the declarative semantics [M]/[L] below is what RegexProofs.v proves the matcher
   against.

   Subset: literals (any code point), '.', escapes of punctuation, \a \f \n \r \t \v,
   \d \w \s \D \W \S, classes and negated classes with ranges and escapes, * + ? {n} {n,}
   {n,m} (at most one per atom in Perl mode, lazy marker accepted), alternation, capturing and
   (?:...) groups, ^ and $.  Everything else that Go accepts (\b \A \z \p{..} \x.. octal,
   [[:alpha:]], (?flags)) is reported as PUnsup. *)
From Ygot Require Import Base.Base.

Inductive re :=
| Eps
| Cls (neg : bool) (rs : list (rune * rune))   (* one rune in (resp. outside) a union of ranges *)
| Seq (a b : re)
| Alt (a b : re)
| Star (a : re)
| Group (a : re)
| Bol | Eol          (* begin/end of text: Go's ^ and $ as compiled by regexp.Compile *)
| BolL | EolL.       (* begin/end of line: ^ and $ as compiled by regexp.CompilePOSIX *)

Definition in_rs (c : rune) (rs : list (rune * rune)) : bool :=
  existsb (fun lh => (fst lh <=? c) && (c <=? snd lh)) rs.
Definition cls_match (neg : bool) (rs : list (rune * rune)) (c : rune) : bool :=
  xorb neg (in_rs c rs).

(* the rune before the current position after reading w, starting after p *)
Definition last_of (p : option rune) (w : str) : option rune :=
  fold_left (fun _ c => Some c) w p.

Definition ctx_bol (p : option rune) : bool := match p with None => true | Some _ => false end.
Definition ctx_boll (p : option rune) : bool := match p with None => true | Some c => c =? 10 end.
Definition ctx_eoll (v : str) : bool := match v with [] => true | c :: _ => c =? 10 end.

(* ---------- declarative semantics ---------- *)

(* M r p w v : r matches the substring w when w is preceded by p (None = start of text) and
   followed by v.  Star iterates non-empty pieces (the star of L(r) equals the star of L(r) minus the
   empty word). *)
Inductive M : re -> option rune -> str -> str -> Prop :=
| MEps : forall p v, M Eps p [] v
| MCls : forall neg rs c p v, cls_match neg rs c = true -> M (Cls neg rs) p [c] v
| MSeq : forall a b p w1 w2 v, M a p w1 (w2 ++ v) -> M b (last_of p w1) w2 v -> M (Seq a b) p (w1 ++ w2) v
| MAltL : forall a b p w v, M a p w v -> M (Alt a b) p w v
| MAltR : forall a b p w v, M b p w v -> M (Alt a b) p w v
| MStar0 : forall a p v, M (Star a) p [] v
| MStarS : forall a p w1 w2 v, w1 <> [] -> M a p w1 (w2 ++ v) -> M (Star a) (last_of p w1) w2 v ->
           M (Star a) p (w1 ++ w2) v
| MGroup : forall a p w v, M a p w v -> M (Group a) p w v
| MBol : forall v, M Bol None [] v
| MEol : forall p, M Eol p [] []
| MBolL : forall p v, ctx_boll p = true -> M BolL p [] v
| MEolL : forall p v, ctx_eoll v = true -> M EolL p [] v.

(* The regular language of an anchor-free expression: the XSD / RFC 7950 reading, in which a
   pattern describes whole values. *)
Inductive L : re -> str -> Prop :=
| LEps : L Eps []
| LCls : forall neg rs c, cls_match neg rs c = true -> L (Cls neg rs) [c]
| LSeq : forall a b w1 w2, L a w1 -> L b w2 -> L (Seq a b) (w1 ++ w2)
| LAltL : forall a b w, L a w -> L (Alt a b) w
| LAltR : forall a b w, L b w -> L (Alt a b) w
| LStar0 : forall a, L (Star a) []
| LStarS : forall a w1 w2, L a w1 -> L (Star a) w2 -> L (Star a) (w1 ++ w2)
| LGroup : forall a w, L a w -> L (Group a) w.

Fixpoint anchor_free (r : re) : bool :=
  match r with
  | Eps | Cls _ _ => true
  | Seq a b | Alt a b => anchor_free a && anchor_free b
  | Star a | Group a => anchor_free a
  | Bol | Eol | BolL | EolL => false
  end.

(* whole-string match and Go's MatchString (some substring matches, anchors seeing the text) *)
Definition whole (r : re) (s : str) : Prop := M r None s [].
Definition search (r : re) (s : str) : Prop :=
  exists u w v, s = u ++ w ++ v /\ M r (last_of None u) w v.

(* ---------- executable matcher (backtracking, continuation passing) ---------- *)

Definition kont := option rune -> str -> bool.

Fixpoint star_loop (ma : option rune -> str -> kont -> bool) (k : kont) (fuel : nat)
    (p : option rune) (s : str) : bool :=
  k p s ||
  match fuel with
  | O => false
  | S f => ma p s (fun p' s' => (length s' <? length s)%nat && star_loop ma k f p' s')
  end.

Fixpoint mt (r : re) (p : option rune) (s : str) (k : kont) : bool :=
  match r with
  | Eps => k p s
  | Cls neg rs => match s with c :: t => cls_match neg rs c && k (Some c) t | [] => false end
  | Seq a b => mt a p s (fun p' s' => mt b p' s' k)
  | Alt a b => mt a p s k || mt b p s k
  | Star a => star_loop (mt a) k (S (length s)) p s
  | Group a => mt a p s k
  | Bol => ctx_bol p && k p s
  | Eol => nil_b s && k p s
  | BolL => ctx_boll p && k p s
  | EolL => ctx_eoll s && k p s
  end.

Definition whole_b (r : re) (s : str) : bool := mt r None s (fun _ s' => nil_b s').

Fixpoint search_from (r : re) (p : option rune) (s : str) : bool :=
  mt r p s (fun _ _ => true) ||
  match s with
  | [] => false
  | c :: t => search_from r (Some c) t
  end.
(* Regexp.MatchString *)
Definition search_b (r : re) (s : str) : bool := search_from r None s.

(* what fixYangRegexp intends to build: ^( r )$ *)
Definition wrap (r : re) : re := Seq Bol (Seq (Group r) Eol).

(* ---------- parser ---------- *)

Inductive pres (A : Type) : Type :=
| POk (a : A)
| PErr            (* Go returns a syntax error *)
| PUnsup.         (* valid or invalid in Go, but outside the modelled subset *)
Arguments POk {A} a.
Arguments PErr {A}.
Arguments PUnsup {A}.
Definition pbind {A B} (r : pres A) (f : A -> pres B) : pres B :=
  match r with POk a => f a | PErr => PErr | PUnsup => PUnsup end.

Definition R_BSL : rune := 92.    Definition R_CARET : rune := 94.  Definition R_DOLLAR : rune := 36.
Definition R_LPAR : rune := 40.   Definition R_RPAR : rune := 41.   Definition R_LBRK : rune := 91.
Definition R_RBRK : rune := 93.   Definition R_BAR : rune := 124.   Definition R_STAR : rune := 42.
Definition R_PLUS : rune := 43.   Definition R_QUEST : rune := 63.  Definition R_LBRACE : rune := 123.
Definition R_RBRACE : rune := 125. Definition R_DOT : rune := 46.   Definition R_MINUS : rune := 45.
Definition R_COMMA : rune := 44.  Definition R_COLON : rune := 58.
Definition MAXR : rune := 1114111.

Definition rs_digit : list (rune * rune) := [(48, 57)].
Definition rs_word : list (rune * rune) := [(48, 57); (65, 90); (95, 95); (97, 122)].
Definition rs_space : list (rune * rune) := [(9, 10); (12, 13); (32, 32)].
Definition rs_ndigit : list (rune * rune) := [(0, 47); (58, MAXR)].
Definition rs_nword : list (rune * rune) := [(0, 47); (58, 64); (91, 94); (96, 96); (123, MAXR)].
Definition rs_nspace : list (rune * rune) := [(0, 8); (11, 11); (14, 31); (33, MAXR)].

Definition is_digit (c : rune) : bool := (48 <=? c) && (c <=? 57).
Definition is_alnum (c : rune) : bool :=
  is_digit c || ((65 <=? c) && (c <=? 90)) || ((97 <=? c) && (c <=? 122)).

(* what follows a backslash *)
Inductive esc_res :=
| EChar (c : rune)
| ESet (rs : list (rune * rune)) (nrs : list (rune * rune))  (* the set, and its complement *)
| EErr
| EUnsup.

(* syntax.parseEscape and the Perl class escapes; px = POSIX syntax (no \d \w \s) *)
Definition p_escape (px : bool) (c : rune) : esc_res :=
  if c =? 97 then EChar 7 else if c =? 102 then EChar 12 else if c =? 110 then EChar 10
  else if c =? 114 then EChar 13 else if c =? 116 then EChar 9 else if c =? 118 then EChar 11
  else if is_digit c then EUnsup
  else if is_alnum c then
    if px then EErr
    else if c =? 100 then ESet rs_digit rs_ndigit else if c =? 68 then ESet rs_ndigit rs_digit
    else if c =? 119 then ESet rs_word rs_nword else if c =? 87 then ESet rs_nword rs_word
    else if c =? 115 then ESet rs_space rs_nspace else if c =? 83 then ESet rs_nspace rs_space
    else if (c =? 65) || (c =? 98) || (c =? 66) || (c =? 67) || (c =? 81) || (c =? 122)
            || (c =? 112) || (c =? 80) || (c =? 120) then EUnsup
    else EErr
  else if c <? 128 then EChar c
  else EErr.

(* one class character (syntax.parseClassChar): a rune or a single-character escape *)
Definition p_class_char (px : bool) (s : str) : pres (rune * str) :=
  match s with
  | [] => PErr
  | c :: t =>
      if c =? R_BSL then
        match t with
        | [] => PErr
        | e :: t' =>
            match p_escape px e with
            | EChar x => POk (x, t')
            | ESet _ _ => PErr      (* \d as a range end point: "invalid character class range" *)
            | EErr => PErr
            | EUnsup => PUnsup
            end
        end
      else POk (c, t)
  end.

(* the items of a bracket expression up to the closing ']' (syntax.parseClass) *)
Fixpoint p_class_items (fuel : nat) (px : bool) (first : bool) (s : str)
    : pres (list (rune * rune) * str) :=
  match fuel with
  | O => PUnsup
  | S f =>
      match s with
      | [] => PErr                                   (* missing closing ] *)
      | c :: t =>
          if (c =? R_RBRK) && negb first then POk ([], t)
          else if px && (c =? R_MINUS) && negb first
                  && negb (match t with x :: _ => x =? R_RBRK | [] => false end) then PErr
          else if (c =? R_LBRK) && (match t with x :: _ => x =? R_COLON | [] => false end) then PUnsup
          else
            let set_esc :=
              if (c =? R_BSL) && negb px then
                match t with
                | e :: t' => match p_escape px e with ESet rs _ => Some (rs, t') | _ => None end
                | [] => None
                end
              else None in
            match set_esc with
            | Some (rs, t') =>
                pbind (p_class_items f px false t') (fun r => POk (rs ++ fst r, snd r))
            | None =>
                pbind (p_class_char px s) (fun lo =>
                  match snd lo with
                  | d :: x :: t2 =>
                      if (d =? R_MINUS) && negb (x =? R_RBRK) then
                        pbind (p_class_char px (x :: t2)) (fun hi =>
                          if fst hi <? fst lo then PErr
                          else pbind (p_class_items f px false (snd hi))
                                 (fun r => POk ((fst lo, fst hi) :: fst r, snd r)))
                      else pbind (p_class_items f px false (snd lo))
                             (fun r => POk ((fst lo, fst lo) :: fst r, snd r))
                  | rest => pbind (p_class_items f px false rest)
                             (fun r => POk ((fst lo, fst lo) :: fst r, snd r))
                  end)
            end
      end
  end.

(* s is what follows '[' *)
Definition p_class (px : bool) (s : str) : pres (re * str) :=
  let neg := match s with c :: _ => c =? R_CARET | [] => false end in
  let body := if neg then tl s else s in
  pbind (p_class_items (S (length s)) px true body) (fun r =>
    (* without the ClassNL flag (POSIX syntax) a negated class does not match newline *)
    POk (Cls neg (if neg && px then (10, 10) :: fst r else fst r), snd r)).

(* ----- repetition operators ----- *)

Fixpoint span_digits (s : str) : str * str :=
  match s with
  | c :: t => if is_digit c then let r := span_digits t in (c :: fst r, snd r) else ([], s)
  | [] => ([], [])
  end.
Definition digits_val (d : str) : N := fold_left (fun acc c => acc * 10 + (c - 48)) d 0.
(* syntax.parseInt: no leading zeros *)
Definition p_int (s : str) : option (N * str) :=
  let r := span_digits s in
  match fst r with
  | [] => None
  | [c] => Some (digits_val [c], snd r)
  | c :: _ => if c =? 48 then None else Some (digits_val (fst r), snd r)
  end.

Fixpoint re_pow (r : re) (n : nat) (tail : re) : re :=
  match n with O => tail | S n' => Seq r (re_pow r n' tail) end.
Definition re_opt (r : re) : re := Alt r Eps.
Definition re_plus (r : re) : re := Seq r (Star r).
(* x{n,} = x^n x*   x{n,m} = x^n (x?)^(m-n) *)
Definition rep_expand (n : N) (m : option N) (r : re) : re :=
  match m with
  | None => re_pow r (N.to_nat n) (Star r)
  | Some m' => re_pow r (N.to_nat n) (re_pow (re_opt r) (N.to_nat (m' - n)) Eps)
  end.

Inductive rep_res :=
| RNone                                  (* no repetition operator here *)
| RBad                                   (* {n,m} with a count above 1000 or n > m *)
| ROp (mk : re -> re) (rest : str).

Definition rep_op (s : str) : rep_res :=
  match s with
  | [] => RNone
  | c :: t =>
      if c =? R_STAR then ROp Star t
      else if c =? R_PLUS then ROp re_plus t
      else if c =? R_QUEST then ROp re_opt t
      else if c =? R_LBRACE then
        match p_int t with
        | None => RNone
        | Some (n, t1) =>
            match t1 with
            | d :: t2 =>
                if d =? R_RBRACE then
                  if 1000 <? n then RBad else ROp (rep_expand n (Some n)) t2
                else if d =? R_COMMA then
                  match t2 with
                  | e :: t3 =>
                      if e =? R_RBRACE then
                        if 1000 <? n then RBad else ROp (rep_expand n None) t3
                      else
                        match p_int t2 with
                        | Some (m, f :: t4) =>
                            if f =? R_RBRACE then
                              if (1000 <? n) || (1000 <? m) || (m <? n) then RBad
                              else ROp (rep_expand n (Some m)) t4
                            else RNone
                        | _ => RNone
                        end
                  | [] => RNone
                  end
                else RNone
            | [] => RNone
            end
        end
      else RNone
  end.

(* the operators after an atom.  Perl syntax: one operator, optionally followed by the lazy
   marker '?', and a further operator is "invalid nested repetition operator"; POSIX syntax:
   operators stack. *)
Fixpoint p_rep (fuel : nat) (px : bool) (a : re) (s : str) : pres (re * str) :=
  match fuel with
  | O => PUnsup
  | S f =>
      match rep_op s with
      | RNone => POk (a, s)
      | RBad => PErr
      | ROp mk s1 =>
          if px then p_rep f px (mk a) s1
          else
            let s2 := match s1 with c :: t => if c =? R_QUEST then t else s1 | [] => s1 end in
            match rep_op s2 with
            | RNone => POk (mk a, s2)
            | _ => PErr
            end
      end
  end.

Definition mk_seq (a b : re) : re := match b with Eps => a | _ => Seq a b end.

Fixpoint p_alt (fuel : nat) (px : bool) (s : str) : pres (re * str) :=
  match fuel with
  | O => PUnsup
  | S f =>
      pbind (p_seq f px s) (fun r =>
        match snd r with
        | c :: t =>
            if c =? R_BAR then pbind (p_alt f px t) (fun r2 => POk (Alt (fst r) (fst r2), snd r2))
            else POk r
        | [] => POk r
        end)
  end
with p_seq (fuel : nat) (px : bool) (s : str) : pres (re * str) :=
  match fuel with
  | O => PUnsup
  | S f =>
      match s with
      | [] => POk (Eps, [])
      | c :: _ =>
          if (c =? R_BAR) || (c =? R_RPAR) then POk (Eps, s)
          else
            pbind (p_atom f px s) (fun r1 =>
              pbind (p_rep (S (length (snd r1))) px (fst r1) (snd r1)) (fun r2 =>
                pbind (p_seq f px (snd r2)) (fun r3 => POk (mk_seq (fst r2) (fst r3), snd r3))))
      end
  end
with p_atom (fuel : nat) (px : bool) (s : str) : pres (re * str) :=
  match fuel with
  | O => PUnsup
  | S f =>
      match s with
      | [] => PErr
      | c :: t =>
          if c =? R_LPAR then
            let close (r : re * str) : pres (re * str) :=
              match snd r with
              | d :: t' => if d =? R_RPAR then POk (Group (fst r), t') else PErr
              | [] => PErr                           (* missing closing ) *)
              end in
            match t with
            | q :: t1 =>
                if q =? R_QUEST then
                  if px then PErr                    (* missing argument to repetition operator *)
                  else match t1 with
                       | x :: t2 => if x =? R_COLON then pbind (p_alt f px t2) close else PUnsup
                       | [] => PErr
                       end
                else pbind (p_alt f px t) close
            | [] => PErr
            end
          else if c =? R_LBRK then p_class px t
          else if c =? R_DOT then POk (Cls true [(10, 10)], t)
          else if c =? R_CARET then POk (if px then BolL else Bol, t)
          else if c =? R_DOLLAR then POk (if px then EolL else Eol, t)
          else if c =? R_BSL then
            match t with
            | [] => PErr                             (* trailing backslash *)
            | e :: t' =>
                match p_escape px e with
                | EChar x => POk (Cls false [(x, x)], t')
                | ESet rs _ => POk (Cls false rs, t')
                | EErr => PErr
                | EUnsup => PUnsup
                end
            end
          else
            match rep_op s with
            | RNone => POk (Cls false [(c, c)], t)   (* literal, including a lone { } ] *)
            | _ => PErr                              (* missing argument to repetition operator *)
            end
      end
  end.

(* regexp.Compile (px = false) / regexp.CompilePOSIX (px = true) *)
Definition parse_re (px : bool) (s : str) : pres re :=
  match p_alt (4 * length s + 8) px s with
  | POk (r, []) => POk r
  | POk (_, _ :: _) => PErr                          (* unexpected ) *)
  | PErr => PErr
  | PUnsup => PUnsup
  end.
