(* NumberProofs.v — yang.Number's Less/Equal decide the order of the denoted rationals. *)
From Ygot Require Import Base.Base Scalar.Number Scalar.NumberSpec.
Open Scope N_scope.

Lemma pow10_loop_small : forall e out,
  out * 10 ^ N.of_nat e < W64 -> pow10_loop e out = out * 10 ^ N.of_nat e.
Proof.
  induction e; intros out H.
  - simpl. rewrite N.mul_1_r. reflexivity.
  - rewrite Nat2N.inj_succ, N.pow_succ_r' in *.
    cbn [pow10_loop]. assert (Hs : out * 10 < W64).
    { assert (0 < 10 ^ N.of_nat e) by (apply N.neq_0_lt_0, N.pow_nonzero; discriminate). nia. }
    unfold w64. rewrite (N.mod_small _ _ Hs).
    rewrite IHe; [apply eq_sym, N.mul_assoc | ]. rewrite <- N.mul_assoc. exact H.
Qed.

Lemma pow_le_19 : forall e, e <= 19 -> 10 ^ e <= 10 ^ 19.
Proof. intros. apply N.pow_le_mono_r; [discriminate | assumption]. Qed.

Lemma pow10_small : forall e, e <= 19 -> pow10 e = 10 ^ e.
Proof.
  intros e H. unfold pow10. rewrite pow10_loop_small; rewrite N2Nat.id.
  - apply N.mul_1_l.
  - rewrite N.mul_1_l. apply N.le_lt_trans with (10 ^ 19); [apply pow_le_19; assumption | reflexivity].
Qed.

Lemma p10_pos : forall e, 0 < 10 ^ e.
Proof. intros. apply N.neq_0_lt_0, N.pow_nonzero. discriminate. Qed.

Lemma pow_split : forall fd, fd <= 18 -> 10 ^ fd * 10 ^ (18 - fd) = E18.
Proof.
  intros fd H. rewrite <- N.pow_add_r. replace (fd + (18 - fd)) with 18 by lia. reflexivity.
Qed.

(* For FractionDigits <= 18 no uint64 operation wraps: Trunc and frac are quotient and scaled
   remainder, and Value * 10^(18-fd) = Trunc * 10^18 + frac with frac < 10^18. *)
Lemma trunc_frac : forall n, nval n < W64 -> nfd n <= 18 ->
  mag n = trunc n * E18 + frac n /\ frac n < E18.
Proof.
  intros [v fd ng] Hv Hfd; cbn [nval nfd nneg] in *. unfold mag, frac, trunc; cbn [nval nfd nneg].
  rewrite (pow10_small fd) by lia.
  assert (Hp := p10_pos fd). assert (Hq := p10_pos (18 - fd)).
  assert (Hs := pow_split fd Hfd).
  pose proof (N.div_mod v (10 ^ fd)) as Hdm. specialize (Hdm ltac:(lia)).
  pose proof (N.mod_upper_bound v (10 ^ fd) ltac:(lia)) as Hub.
  set (q := v / 10 ^ fd) in *. set (r := v mod 10 ^ fd) in *.
  assert (Hqv : q * 10 ^ fd <= v) by lia.
  assert (Hr : r * 10 ^ (18 - fd) < E18) by nia.
  assert (Hfrac : w64 (u64sub v (w64 (q * 10 ^ fd)) * pow10 (u8sub 18 fd)) = r * 10 ^ (18 - fd)).
  { unfold w64 at 2. rewrite (N.mod_small (q * 10 ^ fd)) by lia.
    unfold u64sub. replace (v + W64 - q * 10 ^ fd) with (r + 1 * W64) by lia.
    rewrite N.mod_add by discriminate. rewrite (N.mod_small r) by lia.
    unfold u8sub. replace (18 + 256 - fd) with ((18 - fd) + 1 * 256) by lia.
    rewrite N.mod_add by discriminate. rewrite (N.mod_small (18 - fd)) by lia.
    rewrite (pow10_small (18 - fd)) by lia.
    unfold w64. apply N.mod_small. unfold E18, W64 in *; lia. }
  rewrite Hfrac. split; [ | exact Hr].
  rewrite Hdm at 1. nia.
Qed.

Lemma wf_num_inv : forall n, wf_num n = true ->
  nval n < W64 /\ nfd n <= 18 /\ (nneg n = true -> nval n <> 0).
Proof.
  intros n H. unfold wf_num in H.
  apply andb_prop in H as [H H3]. apply andb_prop in H as [H1 H2].
  apply N.ltb_lt in H1. apply N.leb_le in H2. repeat split; try assumption.
  intros Hn Hz. rewrite Hn in H3. apply N.eqb_eq in Hz. rewrite Hz in H3. discriminate.
Qed.

Lemma mag_pos : forall n, nval n <> 0 -> 0 < mag n.
Proof. intros n H. unfold mag. assert (Hp := p10_pos (18 - nfd n)). nia. Qed.

(* Less is the strict order of the denoted values. *)
Theorem less_spec : forall a b, wf_num a = true -> wf_num b = true ->
  (less a b = true <-> (scaled a < scaled b)%Z).
Proof.
  intros a b Ha Hb.
  apply wf_num_inv in Ha as (Hav & Haf & Haz). apply wf_num_inv in Hb as (Hbv & Hbf & Hbz).
  destruct (trunc_frac a Hav Haf) as [Ea La]. destruct (trunc_frac b Hbv Hbf) as [Eb Lb].
  unfold less, scaled.
  destruct (nneg a) eqn:Na, (nneg b) eqn:Nb; simpl.
  - (* both negative *)
    destruct (N.eqb_spec (trunc a) (trunc b)) as [Et | Et].
    + destruct (N.eqb_spec (frac a) (frac b)) as [Ef | Ef].
      * split; [discriminate | lia].
      * rewrite negb_true_iff, N.ltb_ge. unfold E18 in *. lia.
    + rewrite negb_true_iff, N.ltb_ge. unfold E18 in *. nia.
  - assert (0 < mag a) by (apply mag_pos; auto). split; [lia | reflexivity].
  - split; [discriminate | ]. assert (0 < mag b) by (apply mag_pos; auto). lia.
  - destruct (N.eqb_spec (trunc a) (trunc b)) as [Et | Et].
    + destruct (N.eqb_spec (frac a) (frac b)) as [Ef | Ef].
      * split; [discriminate | lia].
      * rewrite N.ltb_lt. unfold E18 in *. lia.
    + rewrite N.ltb_lt. unfold E18 in *. nia.
Qed.

Theorem equal_spec : forall a b, wf_num a = true -> wf_num b = true ->
  (equal a b = true <-> scaled a = scaled b).
Proof.
  intros a b Ha Hb. unfold equal.
  pose proof (less_spec a b Ha Hb) as H1. pose proof (less_spec b a Hb Ha) as H2.
  destruct (less a b), (less b a); simpl; split; intros H; try discriminate; try reflexivity;
    try (exfalso; assert (true = true) as T by reflexivity; apply H1 in T || apply H2 in T; lia).
  - destruct (Z.lt_total (scaled a) (scaled b)) as [L | [E | L]]; [apply H1 in L; discriminate | assumption | apply H2 in L; discriminate].
Qed.

Theorem less_or_equal_spec : forall a b, wf_num a = true -> wf_num b = true ->
  (less a b || equal a b = true <-> (scaled a <= scaled b)%Z).
Proof.
  intros a b Ha Hb. rewrite orb_true_iff, less_spec, equal_spec by assumption. lia.
Qed.

(* FromInt / FromUint denote the integer itself. *)
Lemma from_int_wf : forall z, (- 2 ^ 63 <= z < 2 ^ 63)%Z -> wf_num (from_int z) = true.
Proof.
  intros z H. unfold from_int, wf_num. destruct (Z.ltb_spec z 0); simpl.
  - rewrite andb_true_r. apply andb_true_intro; split.
    + apply N.ltb_lt. unfold W64. lia.
    + apply negb_true_iff, N.eqb_neq. lia.
  - rewrite !andb_true_r. apply N.ltb_lt. unfold W64. lia.
Qed.

Lemma from_int_scaled : forall z, scaled (from_int z) = (z * 1000000000000000000)%Z.
Proof.
  intros z. unfold from_int, scaled, mag. destruct (Z.ltb_spec z 0); simpl nneg; simpl nval; simpl nfd.
  - change (10 ^ (18 - 0)) with E18. unfold E18. lia.
  - change (10 ^ (18 - 0)) with E18. unfold E18. lia.
Qed.

Lemma from_uint_wf : forall n, n < W64 -> wf_num (from_uint n) = true.
Proof. intros n H. unfold from_uint, wf_num; simpl. rewrite !andb_true_r. apply N.ltb_lt; assumption. Qed.

Lemma from_uint_scaled : forall n, scaled (from_uint n) = (Z.of_N n * 1000000000000000000)%Z.
Proof. intros n. unfold from_uint, scaled, mag; simpl nneg; simpl nval; simpl nfd. change (10 ^ (18 - 0)) with E18. unfold E18. lia. Qed.

(* scaled is 10^18 times the rational value *)
From Coq Require Import QArith.
Open Scope N_scope.
Lemma scaled_denoteQ : forall n, nfd n <= 18 ->
  (inject_Z (scaled n) == denoteQ n * inject_Z 1000000000000000000)%Q.
Proof.
  intros [v fd ng] H; cbn [nfd] in H. unfold scaled, denoteQ, mag; cbn [nneg nval nfd].
  assert (Hpw : Z.pos (Z.to_pos (Z.of_N (10 ^ fd))) = Z.of_N (10 ^ fd)).
  { apply Z2Pos.id. assert (Hp := p10_pos fd). lia. }
  assert (Hs := pow_split fd H).
  assert (Hz : (Z.of_N (10 ^ fd) * Z.of_N (10 ^ (18 - fd)) = 1000000000000000000)%Z).
  { rewrite <- N2Z.inj_mul, Hs. reflexivity. }
  destruct ng; unfold Qeq, Qmult, Qopp, inject_Z; cbn [Qnum Qden];
    rewrite Pos.mul_1_r, Hpw, N2Z.inj_mul; nia.
Qed.

Theorem less_spec_Q : forall a b, wf_num a = true -> wf_num b = true ->
  (less a b = true <-> (denoteQ a < denoteQ b)%Q).
Proof.
  intros a b Ha Hb. rewrite less_spec by assumption.
  destruct (wf_num_inv a Ha) as (_ & Fa & _). destruct (wf_num_inv b Hb) as (_ & Fb & _).
  pose proof (scaled_denoteQ a Fa) as Ea. pose proof (scaled_denoteQ b Fb) as Eb.
  rewrite Zlt_Qlt, Ea, Eb.
  split; intros H.
  - apply Qmult_lt_r in H; [assumption | reflexivity].
  - apply Qmult_lt_r; [reflexivity | assumption].
Qed.
