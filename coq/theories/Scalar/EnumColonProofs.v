(* EnumColonProofs.v — C17 for enumeration names that may contain ':'.
   On a table accepted by tblc_okb (values distinct, KEYS = StripModulePrefix(name) non-empty and
   distinct, 0 undefined, identities without ':' in their names) value -> name -> value is the
   identity, names are unique, UNSET is not rendered; the accepted strings are characterised
   exactly (enumc_parse_iff), which makes the acceptance of undefined names explicit
   (enumc_parse_foreign_prefix) and shows that a module prefix in front of a name that contains
   ':' is NOT accepted (enumc_parse_prefixed_colon_name).  EnumTable.tbl_wf implies tblc_wf. *)
From Coq Require Import Lia.
From Ygot Require Import Tree.Tree Tree.Codec Tree.CodecProofs Scalar.EnumTable Scalar.EnumTableProofs
  Scalar.EnumColon.

(* ---------- util.StripModulePrefix on arbitrary strings ---------- *)

Lemma split_colon_nonnil s : forall cur, split_colon s cur <> [].
Proof.
  induction s as [|c t IH]; intros cur; simpl; [discriminate|].
  destruct (c =? COLON); [discriminate | apply IH].
Qed.

(* a string with a ':' splits at its first ':' *)
Lemma first_colon s : no_colon s = false -> exists m n, s = m ++ COLON :: n /\ no_colon m = true.
Proof.
  induction s as [|c t IH]; simpl; [discriminate|].
  destruct (c =? COLON) eqn:E; simpl.
  - intros _. apply N.eqb_eq in E. subst c. exists [], t. split; reflexivity.
  - intros H. destruct (IH H) as (m & n & -> & Hm). exists (c :: m), n. split; [reflexivity|].
    simpl. now rewrite E.
Qed.

Lemma no_colon_app_colon m n : no_colon (m ++ COLON :: n) = false.
Proof.
  destruct (no_colon (m ++ COLON :: n)) eqn:E; [|reflexivity]. exfalso.
  apply no_colon_spec in E. apply E. apply in_or_app. right. now left.
Qed.

Lemma no_colon_false_In s : no_colon s = false <-> In COLON s.
Proof.
  split.
  - intros H. destruct (first_colon s H) as (m & n & -> & _). apply in_or_app. right. now left.
  - intros H. destruct (no_colon s) eqn:E; [|reflexivity]. apply no_colon_spec in E. contradiction.
Qed.

Lemma has_colon_spec s : has_colon s = true <-> In COLON s.
Proof. unfold has_colon. rewrite negb_true_iff. apply no_colon_false_In. Qed.

(* exactly one ':' : the part after it *)
Lemma strip_mod_one_colon m n : no_colon m = true -> no_colon n = true -> strip_mod (m ++ COLON :: n) = n.
Proof. exact (strip_mod_prefixed m n). Qed.

(* two or more ':' : unchanged (the `default` arm of StripModulePrefix) *)
Lemma strip_mod_many_colons m n :
  no_colon m = true -> no_colon n = false -> strip_mod (m ++ COLON :: n) = m ++ COLON :: n.
Proof.
  intros Hm Hn. destruct (first_colon n Hn) as (m2 & n2 & -> & Hm2).
  unfold strip_mod. rewrite (split_colon_prefix m _ [] Hm). rewrite (split_colon_prefix m2 _ [] Hm2).
  destruct (split_colon n2 []) eqn:E; [now apply split_colon_nonnil in E | reflexivity].
Qed.

(* the three shapes of an argument of StripModulePrefix *)
Inductive strip_shape (s : str) : Prop :=
| SS_none : no_colon s = true -> strip_mod s = s -> strip_shape s
| SS_one (m n : str) : s = m ++ COLON :: n -> no_colon m = true -> no_colon n = true ->
                       strip_mod s = n -> strip_shape s
| SS_many : no_colon s = false -> strip_mod s = s -> strip_shape s.

Lemma strip_mod_shape s : strip_shape s.
Proof.
  destruct (no_colon s) eqn:E.
  - apply SS_none; [assumption | now apply strip_mod_no_colon].
  - destruct (first_colon s E) as (m & n & Hs & Hm). destruct (no_colon n) eqn:En.
    + apply (SS_one s m n); try assumption. subst s. now apply strip_mod_one_colon.
    + apply SS_many; [assumption|]. subst s. now apply strip_mod_many_colons.
Qed.

(* the result has no ':' unless the argument came back unchanged *)
Lemma strip_mod_key_cases s : no_colon (strip_mod s) = true \/ strip_mod s = s.
Proof.
  destruct (strip_mod_shape s) as [H1 H2 | m n Hs Hm Hn H | H1 H2].
  - right. assumption.
  - left. now rewrite H.
  - right. assumption.
Qed.

Lemma strip_mod_idem s : strip_mod (strip_mod s) = strip_mod s.
Proof.
  destruct (strip_mod_key_cases s) as [H|H].
  - now apply strip_mod_no_colon.
  - now rewrite H.
Qed.

(* an accepted spelling of a key: the key itself or one colon-free prefix in front of it,
   unless the string has two or more ':' (then it is its own key) *)
Lemma strip_mod_eq_cases s b : strip_mod s = b ->
  s = b \/ exists m, s = m ++ COLON :: b /\ no_colon m = true /\ no_colon b = true.
Proof.
  intros H. destruct (strip_mod_shape s) as [H1 H2 | m n Hs Hm Hn H' | H1 H2].
  - left. congruence.
  - right. exists m. rewrite H' in H. subst n. auto.
  - left. congruence.
Qed.

(* ---------- the checker decides the declarative statement ---------- *)

Lemma keys_distinctb_spec t : keys_distinctb t = true <-> NoDup (map ev_key t).
Proof.
  induction t as [|e r IH]; simpl.
  - split; [constructor | reflexivity].
  - rewrite andb_true_iff, negb_true_iff, IH. split.
    + intros [Hx Hr]. constructor; [|assumption]. intros Hin.
      apply in_map_iff in Hin as (e' & He & Hin).
      assert (existsb (fun e' => str_eqb (ev_key e) (ev_key e')) r = true).
      { apply existsb_exists. exists e'. split; [assumption|]. rewrite He. apply cstr_eqb_refl. }
      congruence.
    + intros H. inversion H as [|? ? Hx Hr]; subst. split; [|assumption].
      destruct (existsb _ r) eqn:E; [|reflexivity]. exfalso. apply Hx.
      apply existsb_exists in E as (e' & Hin & He). apply cstr_eqb_eq in He. rewrite He.
      now apply in_map.
Qed.

(* keys_distinctb is CodecProofs.tbl_okb *)
Lemma keys_distinctb_tbl_okb t : keys_distinctb t = tbl_okb t.
Proof. induction t as [|e r IH]; simpl; [reflexivity|]. now rewrite IH. Qed.

Lemma entry_okb_spec e : entry_okb e = true <->
  ev_key e <> [] /\ ~ In COLON (ev_mod e) /\ (ev_mod e <> [] -> ~ In COLON (ev_name e)).
Proof.
  unfold entry_okb. rewrite !andb_true_iff, orb_true_iff, negb_true_iff, !no_colon_spec. split.
  - intros [[H1 H2] H3]. repeat split.
    + intros E. rewrite E in H1. discriminate H1.
    + assumption.
    + intros Hne. destruct H3 as [H3|H3]; [|assumption].
      destruct (ev_mod e); [congruence | discriminate H3].
  - intros (H1 & H2 & H3). repeat split.
    + destruct (ev_key e); [congruence | reflexivity].
    + assumption.
    + destruct (ev_mod e) as [|c m] eqn:E; [now left | right; apply H3; discriminate].
Qed.

Lemma entries_okb_spec t : entries_okb t = true <->
  Forall (fun e => ev_key e <> [] /\ ~ In COLON (ev_mod e) /\ (ev_mod e <> [] -> ~ In COLON (ev_name e))) t.
Proof.
  unfold entries_okb. rewrite forallb_forall, Forall_forall.
  split; intros H e Hin; apply entry_okb_spec; auto.
Qed.

Theorem tblc_ok_spec : forall t, tblc_okb t = true <-> tblc_wf t.
Proof.
  intros t. unfold tblc_okb, tblc_wf.
  rewrite !andb_true_iff, nums_distinctb_spec, keys_distinctb_spec, zero_freeb_spec, entries_okb_spec.
  tauto.
Qed.

(* ---------- the old predicate is an instance ---------- *)

Theorem tbl_wf_tblc_wf : forall t, tbl_wf t -> tblc_wf t.
Proof.
  intros t Hwf. pose proof Hwf as (Hn & Hm & Hz & Hf).
  assert (Hk : forall e, In e t -> ev_key e = ev_name e) by (intros e Hin; now apply (tbl_wf_strip t)).
  unfold tblc_wf. repeat split; try assumption.
  - rewrite (map_ext_in ev_key ev_name t Hk). assumption.
  - apply Forall_forall. intros e Hin. rewrite Forall_forall in Hf. destruct (Hf e Hin) as (Ha & Hb & Hc).
    rewrite (Hk e Hin). auto.
Qed.

Theorem tbl_okb_full_tblc_okb : forall t, tbl_okb_full t = true -> tblc_okb t = true.
Proof. intros t H. apply tblc_ok_spec. apply tbl_wf_tblc_wf. now apply tbl_ok_spec. Qed.

(* a table without ':' in any name: the two predicates differ only by the emptiness test of names
   being on the key; tbl_has_colonb decides "some name has a ':'" *)
Lemma tbl_has_colonb_false t : tbl_has_colonb t = false <-> forall e, In e t -> ~ In COLON (ev_name e).
Proof.
  unfold tbl_has_colonb. split.
  - intros H e Hin Hc. assert (existsb (fun e => has_colon (ev_name e)) t = true).
    { apply existsb_exists. exists e. split; [assumption | now apply has_colon_spec]. }
    congruence.
  - intros H. destruct (existsb _ t) eqn:E; [|reflexivity]. exfalso.
    apply existsb_exists in E as (e & Hin & Hc). apply has_colon_spec in Hc. now apply (H e).
Qed.

Theorem tblc_okb_no_colon_full : forall t, tbl_has_colonb t = false -> tblc_okb t = true -> tbl_okb_full t = true.
Proof.
  intros t Hc Hok. apply tbl_ok_spec. apply tblc_ok_spec in Hok as (Hn & Hk & Hz & Hf).
  rewrite tbl_has_colonb_false in Hc.
  assert (Hs : forall e, In e t -> ev_key e = ev_name e).
  { intros e Hin. apply strip_mod_no_colon. apply no_colon_spec. now apply Hc. }
  unfold tbl_wf. repeat split; try assumption.
  - rewrite <- (map_ext_in ev_key ev_name t Hs). assumption.
  - apply Forall_forall. intros e Hin. rewrite Forall_forall in Hf. destruct (Hf e Hin) as (Ha & Hb & _).
    rewrite (Hs e Hin) in Ha. auto.
Qed.

(* ---------- which strings parse ---------- *)

Lemma tblc_okb_tbl_okb t : tblc_okb t = true -> tbl_okb t = true.
Proof.
  intros H. apply tblc_ok_spec in H as (_ & Hk & _). rewrite <- keys_distinctb_tbl_okb.
  now apply keys_distinctb_spec.
Qed.

Lemma enum_cast_none_iff t s : enum_cast t s = None <-> forall e, In e t -> ev_key e <> strip_mod s.
Proof.
  induction t as [|x r IH]; simpl.
  - split; [intros _ e [] | reflexivity].
  - destruct (str_eqb (strip_mod (ev_name x)) (strip_mod s)) eqn:E.
    + split; [discriminate|]. intros H. exfalso. apply (H x (or_introl eq_refl)).
      now apply cstr_eqb_eq in E.
    + rewrite IH. split.
      * intros H e [<-|Hin]; [|now apply H]. intros Hk. unfold ev_key in Hk. rewrite Hk in E.
        rewrite cstr_eqb_refl in E. discriminate.
      * intros H e Hin. apply H. now right.
Qed.

Theorem enumc_cast_iff : forall t s e, tblc_okb t = true ->
  (enum_cast t s = Some e <-> In e t /\ ev_key e = strip_mod s).
Proof.
  intros t s e Hok. split.
  - apply enum_cast_In.
  - intros [Hin Hk]. apply enum_cast_unique; [now apply tblc_okb_tbl_okb | assumption | now symmetry].
Qed.

(* exactly the strings whose stripped form is the key of a defined value parse, to that value *)
Theorem enumc_parse_iff : forall t s n, tblc_okb t = true ->
  (enum_parse t s = Ok n <-> exists e, enum_by_num t n = Some e /\ ev_key e = strip_mod s).
Proof.
  intros t s n Hok. pose proof (proj1 (tblc_ok_spec t) Hok) as (Hn & _). split.
  - unfold enum_parse. destruct (enum_cast t s) as [e|] eqn:Ec; [|discriminate]. intros [= <-].
    apply enum_cast_In in Ec as [Hin Hs]. exists e. split; [now apply enum_by_num_first | exact Hs].
  - intros (e & He & Hs). apply enum_by_num_In in He as [Hin Hnum]. unfold enum_parse.
    rewrite (proj2 (enumc_cast_iff t s e Hok) (conj Hin Hs)). now rewrite Hnum.
Qed.

(* every other string is rejected with an error; parsing never panics (no guard needed) *)
Theorem enumc_parse_err_iff : forall t s,
  enum_parse t s = Err <-> forall e, In e t -> ev_key e <> strip_mod s.
Proof.
  intros t s. rewrite <- enum_cast_none_iff. unfold enum_parse.
  destruct (enum_cast t s); split; intros H; try discriminate; reflexivity.
Qed.

Lemma enum_parse_no_panic t s : enum_parse t s <> Panic.
Proof. unfold enum_parse. destruct (enum_cast t s); discriminate. Qed.

(* ---------- value -> name -> value ---------- *)

Lemma tblc_entry t e : tblc_okb t = true -> In e t ->
  ev_key e <> [] /\ ~ In COLON (ev_mod e) /\ (ev_mod e <> [] -> ~ In COLON (ev_name e)).
Proof.
  intros Hok Hin. apply tblc_ok_spec in Hok as (_ & _ & _ & Hf). rewrite Forall_forall in Hf. now apply Hf.
Qed.

(* the bare name *)
Theorem enumc_parse_name : forall t n e, tblc_okb t = true -> enum_by_num t n = Some e ->
  enum_parse t (ev_name e) = Ok n.
Proof. intros t n e Hok He. apply enumc_parse_iff; [assumption|]. exists e. split; [assumption | reflexivity]. Qed.

(* the rendered text (module:name for identities when asked) is found as this very entry *)
Lemma enumc_cast_text t n e pmi : tblc_okb t = true -> enum_by_num t n = Some e ->
  enum_cast t (enum_text pmi e) = Some e.
Proof.
  intros Hok He. pose proof (enum_by_num_In _ _ _ He) as [Hin _].
  apply enumc_cast_iff; [assumption|]. split; [assumption|].
  unfold enum_text. destruct (pmi && negb (nil_b (ev_mod e))) eqn:P; [|reflexivity].
  apply andb_true_iff in P as [_ P]. apply negb_true_iff in P.
  destruct (tblc_entry t e Hok Hin) as (_ & Hm & Hnm).
  assert (Hc : ~ In COLON (ev_name e)) by (apply Hnm; intros E; rewrite E in P; discriminate P).
  apply no_colon_spec in Hm. apply no_colon_spec in Hc.
  unfold ev_key. rewrite strip_mod_one_colon by assumption. now apply strip_mod_no_colon.
Qed.

Theorem enumc_parse_text : forall t n e pmi, tblc_okb t = true -> enum_by_num t n = Some e ->
  enum_parse t (enum_text pmi e) = Ok n.
Proof.
  intros t n e pmi Hok He. unfold enum_parse. rewrite (enumc_cast_text t n e pmi Hok He).
  now destruct (enum_by_num_In _ _ _ He) as [_ ->].
Qed.

(* through the model of enumFieldToString *)
Theorem enumc_render_parse : forall env ty pmi n s,
  tblc_okb (enum_table env ty) = true ->
  enum_field_to_string env pmi ty n = Ok (s, true) ->
  enum_parse (enum_table env ty) s = Ok n.
Proof.
  intros env ty pmi n s Hok H. unfold enum_field_to_string in H.
  destruct (n =? 0)%Z; [discriminate|].
  unfold enum_table in *. destruct (assoc ty env) as [t|]; [|discriminate].
  destruct (enum_by_num t n) as [e|] eqn:He; [|discriminate]. injection H as <-.
  now apply enumc_parse_text.
Qed.

(* a name WITHOUT ':' : any one colon-free prefix is accepted and ignored, as before *)
Theorem enumc_parse_any_prefix : forall t n e m, tblc_okb t = true -> enum_by_num t n = Some e ->
  ~ In COLON (ev_name e) -> ~ In COLON m -> enum_parse t (m ++ COLON :: ev_name e) = Ok n.
Proof.
  intros t n e m Hok He Hc Hm. apply enumc_parse_iff; [assumption|]. exists e. split; [assumption|].
  apply no_colon_spec in Hc. apply no_colon_spec in Hm.
  unfold ev_key. rewrite strip_mod_one_colon by assumption. now apply strip_mod_no_colon.
Qed.

(* a name "p:b" WITH exactly one ':' : its key is b, so b alone and b behind ANY colon-free prefix
   parse to its value — strings that are not names of the type are accepted *)
Theorem enumc_parse_foreign_prefix : forall t n e p b m, tblc_okb t = true -> enum_by_num t n = Some e ->
  ev_name e = p ++ COLON :: b -> ~ In COLON p -> ~ In COLON b -> ~ In COLON m ->
  enum_parse t b = Ok n /\ enum_parse t (m ++ COLON :: b) = Ok n.
Proof.
  intros t n e p b m Hok He Hnm Hp Hb Hm.
  apply no_colon_spec in Hp. apply no_colon_spec in Hb. apply no_colon_spec in Hm.
  assert (Hk : ev_key e = b) by (unfold ev_key; rewrite Hnm; now apply strip_mod_one_colon).
  split; apply enumc_parse_iff; try assumption; exists e; (split; [assumption|]); rewrite Hk; symmetry.
  - now apply strip_mod_no_colon.
  - now apply strip_mod_one_colon.
Qed.

(* a module prefix in front of a name that contains ':' : the string has two or more ':' and
   StripModulePrefix leaves it alone, so it parses only if it is literally a name of the table,
   and then to THAT entry's value *)
Theorem enumc_parse_prefixed_colon_name : forall t n e m k, tblc_okb t = true ->
  enum_by_num t n = Some e -> In COLON (ev_name e) -> ~ In COLON m ->
  (enum_parse t (m ++ COLON :: ev_name e) = Ok k <->
   exists e', enum_by_num t k = Some e' /\ ev_name e' = m ++ COLON :: ev_name e).
Proof.
  intros t n e m k Hok He Hc Hm. apply no_colon_spec in Hm. apply no_colon_false_In in Hc.
  rewrite (enumc_parse_iff t _ k Hok). rewrite (strip_mod_many_colons m (ev_name e) Hm Hc).
  split; intros (e' & He' & H); exists e'; (split; [assumption|]).
  - unfold ev_key in H. destruct (strip_mod_key_cases (ev_name e')) as [Hk|Hk].
    + rewrite H in Hk. rewrite no_colon_app_colon in Hk. discriminate.
    + congruence.
  - unfold ev_key. rewrite H. now apply strip_mod_many_colons.
Qed.

Corollary enumc_parse_prefixed_colon_name_not_same : forall t n e m, tblc_okb t = true ->
  enum_by_num t n = Some e -> In COLON (ev_name e) -> ~ In COLON m ->
  enum_parse t (m ++ COLON :: ev_name e) <> Ok n.
Proof.
  intros t n e m Hok He Hc Hm H.
  apply (enumc_parse_prefixed_colon_name t n e m n Hok He Hc Hm) in H as (e' & He' & Hnm).
  rewrite He in He'. injection He' as <-. apply (f_equal (@length _)) in Hnm.
  rewrite app_length in Hnm. simpl in Hnm. lia.
Qed.

Corollary enumc_parse_prefixed_colon_name_err : forall t n e m, tblc_okb t = true ->
  enum_by_num t n = Some e -> In COLON (ev_name e) -> ~ In COLON m ->
  (forall e', In e' t -> ev_name e' <> m ++ COLON :: ev_name e) ->
  enum_parse t (m ++ COLON :: ev_name e) = Err.
Proof.
  intros t n e m Hok He Hc Hm Hno.
  destruct (enum_parse t (m ++ COLON :: ev_name e)) as [k| |] eqn:E; [exfalso | reflexivity | exfalso].
  - apply (enumc_parse_prefixed_colon_name t n e m k Hok He Hc Hm) in E as (e' & He' & Hnm).
    apply enum_by_num_In in He' as [Hin _]. now apply (Hno e').
  - now apply enum_parse_no_panic in E.
Qed.

(* name -> value -> name, up to the key *)
Theorem enumc_parse_render : forall t s n, tblc_okb t = true -> enum_parse t s = Ok n ->
  exists e, enum_by_num t n = Some e /\
    (s = ev_key e \/ exists m, s = m ++ COLON :: ev_key e /\ ~ In COLON m /\ ~ In COLON (ev_key e)).
Proof.
  intros t s n Hok H. apply enumc_parse_iff in H as (e & He & Hk); [|assumption].
  exists e. split; [assumption|]. symmetry in Hk. destruct (strip_mod_eq_cases s _ Hk) as [->|(m & -> & Hm & Hb)].
  - now left.
  - right. exists m. repeat split; now apply no_colon_spec.
Qed.

(* ---------- uniqueness ---------- *)

Theorem enumc_names_unique : forall t, tblc_okb t = true ->
  NoDup (map ev_name t) /\ NoDup (map ev_num t) /\ NoDup (map ev_key t) /\
  forall n1 n2 e1 e2, enum_by_num t n1 = Some e1 -> enum_by_num t n2 = Some e2 ->
    ev_name e1 = ev_name e2 -> n1 = n2.
Proof.
  intros t Hok. pose proof (proj1 (tblc_ok_spec t) Hok) as (Hn & Hk & _). repeat split; try assumption.
  - apply (NoDup_map_inv strip_mod). rewrite map_map. exact Hk.
  - intros n1 n2 e1 e2 H1 H2 Hnm.
    pose proof (enumc_parse_name t n1 e1 Hok H1) as P1.
    pose proof (enumc_parse_name t n2 e2 Hok H2) as P2.
    rewrite Hnm in P1. congruence.
Qed.

(* ---------- UNSET ---------- *)

Lemma tblc_zero t : tblc_okb t = true -> enum_by_num t 0 = None.
Proof.
  intros H. apply tblc_ok_spec in H. destruct H as (_ & _ & Hz & _).
  destruct (enum_by_num t 0) as [e|] eqn:E; [|reflexivity].
  apply enum_by_num_In in E as [Hin Hn]. exfalso. apply Hz. rewrite <- Hn. now apply in_map.
Qed.

Theorem enumc_unset_not_rendered : forall env pmi ty,
  enum_field_to_string env pmi ty 0 = Ok ([], false) /\
  enum_leaf env pmi ty 0 = Ok None /\
  (forall fo, tblc_okb (enum_table env ty) = true ->
     enum_by_num (enum_table env ty) 0 = None /\
     enc_enum env pmi ty 0 = Err /\
     enc_scalar env fo pmi (VEnum ty 0) = Err).
Proof.
  intros env pmi ty. repeat split.
  - now apply tblc_zero.
  - unfold enc_enum. now rewrite tblc_zero.
  - apply enc_scalar_enum_err. now apply tblc_zero.
Qed.

(* ---------- the statements of Properties/C17.v ---------- *)

Theorem enumc_bijection : forall env ty, tblc_okb (enum_table env ty) = true ->
  forall n e, enum_by_num (enum_table env ty) n = Some e -> n <> 0%Z ->
  forall pmi,
    enum_field_to_string env pmi ty n = Ok (enum_text pmi e, true) /\
    enum_parse (enum_table env ty) (enum_text pmi e) = Ok n /\
    enum_parse (enum_table env ty) (ev_name e) = Ok n /\
    (~ In COLON (ev_name e) -> forall m, ~ In COLON m ->
       enum_parse (enum_table env ty) (m ++ COLON :: ev_name e) = Ok n) /\
    (In COLON (ev_name e) -> forall m, ~ In COLON m ->
       enum_parse (enum_table env ty) (m ++ COLON :: ev_name e) <> Ok n).
Proof.
  intros env ty Hok n e He Hn pmi. repeat split.
  - now apply enum_field_to_string_defined.
  - now apply enumc_parse_text.
  - now apply enumc_parse_name.
  - intros Hc m Hm. now apply enumc_parse_any_prefix.
  - intros Hc m Hm. now apply enumc_parse_prefixed_colon_name_not_same.
Qed.

(* through the JSON codec of the tree layer *)
Theorem enumc_bijection_json : forall env fo pmi ty n j,
  tblc_okb (enum_table env ty) = true ->
  enc_scalar env fo pmi (VEnum ty n) = Ok j ->
  dec_json env fo (YEnum ty) j = Ok (VEnum ty n) /\ dec_json env fo (YIdref ty) j = Ok (VEnum ty n).
Proof.
  intros env fo pmi ty n j Hok He. simpl in He. unfold enc_enum in He.
  destruct (enum_by_num (enum_table env ty) n) as [e|] eqn:En; [|discriminate].
  simpl in He. injection He as <-.
  pose proof (enum_by_num_In _ _ _ En) as [_ Hnum].
  pose proof (enumc_cast_text _ n e pmi Hok En) as Hc. unfold enum_text in Hc.
  cbn [dec_json].
  match goal with |- context [enum_cast ?t ?s] => assert (Hc' : enum_cast t s = Some e) by exact Hc end.
  rewrite Hc', Hnum. split; reflexivity.
Qed.

Theorem colon_table_statement_ok : forall t, tblc_okb t = true -> colon_table_statement t.
Proof.
  intros t Hok. destruct (enumc_names_unique t Hok) as (H1 & H2 & H3 & _).
  unfold colon_table_statement. repeat split; try assumption.
  - now apply tblc_zero.
  - now apply (enumc_parse_name t n e).
  - intros pmi. now apply enumc_parse_text.
  - now apply enumc_parse_iff.
  - now apply enumc_parse_iff.
Qed.

(* the per-table obligation of the regenerated file: tbl_checkb chooses the predicate *)
Theorem tbl_checkb_statement : forall t, tbl_checkb t = true ->
  colon_table_statement t /\ (tbl_has_colonb t = false -> table_statement t).
Proof.
  intros t H. unfold tbl_checkb in H. destruct (tbl_has_colonb t) eqn:E.
  - split; [now apply colon_table_statement_ok | discriminate].
  - split; [apply colon_table_statement_ok; now apply tbl_okb_full_tblc_okb | intros _; now apply table_statement_ok].
Qed.

Theorem tbl_checkb_lift : forall (ts : list (str * str * list enumval)),
  forallb (fun t => tbl_checkb (snd t)) ts = true ->
  forall t, In t ts ->
    colon_table_statement (snd t) /\ (tbl_has_colonb (snd t) = false -> table_statement (snd t)).
Proof.
  intros ts H t Hin. apply tbl_checkb_statement. rewrite forallb_forall in H. now apply H.
Qed.

(* ---------- the generator's numbering ---------- *)

Theorem gen_enum_table_wf_c : forall vals, yang_enumc_wf vals -> tblc_wf (gen_enum_table vals).
Proof.
  intros vals (Hn & Hv & Hm & Hf). unfold tblc_wf, gen_enum_table. repeat split.
  - rewrite map_map. simpl. rewrite <- (map_map snd (fun z => z + 1)%Z).
    apply FinFun.Injective_map_NoDup; [|assumption]. intros a b H. lia.
  - rewrite map_map. unfold ev_key. simpl. assumption.
  - rewrite map_map. simpl. intros Hin. apply in_map_iff in Hin as (p & Hp & Hin).
    apply Hm. apply in_map_iff. exists p. split; [lia | assumption].
  - apply Forall_forall. intros e Hin. apply in_map_iff in Hin as (p & <- & Hin). unfold ev_key. simpl.
    rewrite Forall_forall in Hf. repeat split; [now apply Hf | tauto | congruence].
Qed.

Print Assumptions tblc_ok_spec.
Print Assumptions enumc_parse_iff.
Print Assumptions enumc_bijection.
Print Assumptions enumc_bijection_json.
Print Assumptions tbl_checkb_lift.
Print Assumptions gen_enum_table_wf_c.

(* ---------- "an undefined name is rejected", guarded ---------- *)

(* when no name of the table has a ':', an accepted string is a name of the table, possibly
   behind one prefix (the lenient-prefix behaviour of castToEnumValue) *)
Theorem enumc_undefined_rejected_guarded : forall t s n,
  tbl_has_colonb t = false -> tblc_okb t = true -> enum_parse t s = Ok n ->
  exists e, enum_by_num t n = Some e /\ (s = ev_name e \/ exists m, s = m ++ COLON :: ev_name e).
Proof.
  intros t s n Hc Hok H. destruct (enumc_parse_render t s n Hok H) as (e & He & Hs).
  exists e. split; [assumption|].
  assert (Hk : ev_key e = ev_name e).
  { apply strip_mod_no_colon. apply no_colon_spec. rewrite tbl_has_colonb_false in Hc. apply Hc.
    now apply enum_by_num_In in He as [? _]. }
  rewrite Hk in Hs. destruct Hs as [->|(m & -> & _)]; [now left | right; now exists m].
Qed.
Print Assumptions enumc_undefined_rejected_guarded.
