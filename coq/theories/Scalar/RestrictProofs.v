(* RestrictProofs.v — the restriction validators accept exactly the restricted value space. *)
From Ygot Require Import Base.Base Scalar.Number Scalar.NumberProofs Scalar.Regex Scalar.RegexProofs
  Scalar.FixRegexp Scalar.FixRegexpProofs Scalar.RegexParseProofs Scalar.Restrict.
Open Scope N_scope.

Lemma in_range_spec : forall r v, wf_range r = true -> wf_num v = true ->
  (in_range r v = true <-> (scaled (rmin r) <= scaled v <= scaled (rmax r))%Z).
Proof.
  intros r v Hr Hv. unfold wf_range in Hr. apply andb_prop in Hr as [H1 H2].
  unfold in_range. rewrite andb_true_iff, !less_or_equal_spec by assumption. lia.
Qed.

Theorem in_ranges_spec : forall rs v, forallb wf_range rs = true -> wf_num v = true ->
  (in_ranges rs v = true <->
   rs = [] \/ exists r, In r rs /\ (scaled (rmin r) <= scaled v <= scaled (rmax r))%Z).
Proof.
  intros rs v Hrs Hv. destruct rs as [|r0 rs'] eqn:E.
  - simpl. split; [intros _; left; reflexivity | reflexivity].
  - rewrite <- E in *. assert (Hin : in_ranges rs v = existsb (fun yr => in_range yr v) rs) by (subst; reflexivity).
    rewrite Hin, existsb_exists. rewrite forallb_forall in Hrs. split.
    + intros (r & Hi & Hr). right. exists r. split; [assumption | ]. apply in_range_spec; auto.
    + intros [Hnil | (r & Hi & Hr)]; [subst; discriminate | ].
      exists r. split; [assumption | ]. apply in_range_spec; auto.
Qed.

Lemma verdict_ok : forall b, verdict b = Ok tt <-> b = true.
Proof. intros []; simpl; split; intros H; try reflexivity; discriminate. Qed.

(* --- integers --- *)

Definition int64b (z : Z) : Prop := (- 2 ^ 63 <= z < 2 ^ 63)%Z.

Lemma int_range_wf : forall lo hi, int64b lo -> int64b hi -> wf_range (int_range lo hi) = true.
Proof. intros lo hi H1 H2. unfold wf_range, int_range; simpl. rewrite !from_int_wf by assumption. reflexivity. Qed.

Theorem validate_int_spec : forall rs z, forallb wf_range rs = true -> int64b z ->
  (validate_int (only_range rs) z = Ok tt <->
   rs = [] \/ exists r, In r rs /\ (scaled (rmin r) <= z * 1000000000000000000 <= scaled (rmax r))%Z).
Proof.
  intros rs z Hrs Hz. unfold validate_int, only_range; simpl t_range.
  rewrite verdict_ok, in_ranges_spec by (auto using from_int_wf). rewrite from_int_scaled. reflexivity.
Qed.

(* integer-valued ranges: exactly lo <= z <= hi for one of the parts *)
Theorem validate_int_range : forall (bs : list (Z * Z)) z,
  (forall b, In b bs -> int64b (fst b) /\ int64b (snd b)) -> int64b z ->
  (validate_int (only_range (map (fun b => int_range (fst b) (snd b)) bs)) z = Ok tt <->
   bs = [] \/ exists b, In b bs /\ (fst b <= z <= snd b)%Z).
Proof.
  intros bs z Hbs Hz. rewrite validate_int_spec; [ | | assumption].
  - split.
    + intros [Hn | (r & Hi & Hr)].
      * left. destruct bs; [reflexivity | discriminate].
      * right. apply in_map_iff in Hi as (b & <- & Hb). exists b. split; [assumption | ].
        simpl in Hr. rewrite !from_int_scaled in Hr. lia.
    + intros [-> | (b & Hb & Hr)]; [left; reflexivity | right].
      exists (int_range (fst b) (snd b)). split; [apply in_map_iff; exists b; auto | ].
      simpl. rewrite !from_int_scaled. lia.
  - apply forallb_forall. intros r Hi. apply in_map_iff in Hi as (b & <- & Hb).
    destruct (Hbs b Hb). apply int_range_wf; assumption.
Qed.

Lemma uint_range_wf : forall lo hi, lo < W64 -> hi < W64 -> wf_range (uint_range lo hi) = true.
Proof. intros lo hi H1 H2. unfold wf_range, uint_range; simpl. rewrite !from_uint_wf by assumption. reflexivity. Qed.

Theorem validate_uint_spec : forall rs n, forallb wf_range rs = true -> n < W64 ->
  (validate_uint (only_range rs) n = Ok tt <->
   rs = [] \/ exists r, In r rs /\ (scaled (rmin r) <= Z.of_N n * 1000000000000000000 <= scaled (rmax r))%Z).
Proof.
  intros rs n Hrs Hn. unfold validate_uint, only_range; simpl t_range.
  rewrite verdict_ok, in_ranges_spec by (auto using from_uint_wf). rewrite from_uint_scaled. reflexivity.
Qed.

Lemma length_ok_range : forall (bs : list (N * N)) n,
  (forall b, In b bs -> fst b < W64 /\ snd b < W64) -> n < W64 ->
  (length_ok (map (fun b => uint_range (fst b) (snd b)) bs) n = true <->
   bs = [] \/ exists b, In b bs /\ fst b <= n <= snd b).
Proof.
  intros bs n Hbs Hn. unfold length_ok. rewrite in_ranges_spec; [ | | apply from_uint_wf; assumption].
  - split.
    + intros [Hnil | (r & Hi & Hr)].
      * left. destruct bs; [reflexivity | discriminate].
      * right. apply in_map_iff in Hi as (b & <- & Hb). exists b. split; [assumption | ].
        simpl in Hr. rewrite !from_uint_scaled in Hr. lia.
    + intros [-> | (b & Hb & Hr)]; [left; reflexivity | right].
      exists (uint_range (fst b) (snd b)). split; [apply in_map_iff; exists b; auto | ].
      simpl. rewrite !from_uint_scaled. lia.
  - apply forallb_forall. intros r Hi. apply in_map_iff in Hi as (b & <- & Hb).
    destruct (Hbs b Hb). apply uint_range_wf; assumption.
Qed.

Theorem validate_uint_range : forall (bs : list (N * N)) n,
  (forall b, In b bs -> fst b < W64 /\ snd b < W64) -> n < W64 ->
  (validate_uint (only_range (map (fun b => uint_range (fst b) (snd b)) bs)) n = Ok tt <->
   bs = [] \/ exists b, In b bs /\ fst b <= n <= snd b).
Proof.
  intros bs n Hbs Hn. unfold validate_uint, only_range; simpl t_range. rewrite verdict_ok.
  apply length_ok_range; assumption.
Qed.

(* --- decimal64 (the value as the Number that FromFloat returned) --- *)

Theorem validate_decimal_spec : forall rs v, forallb wf_range rs = true -> wf_num v = true ->
  (validate_decimal (only_range rs) v = Ok tt <->
   rs = [] \/ exists r, In r rs /\ (scaled (rmin r) <= scaled v <= scaled (rmax r))%Z).
Proof.
  intros rs v Hrs Hv. unfold validate_decimal, only_range; simpl t_range.
  rewrite verdict_ok. apply in_ranges_spec; assumption.
Qed.

(* --- lengths --- *)

Theorem validate_string_length : forall (bs : list (N * N)) s,
  (forall b, In b bs -> fst b < W64 /\ snd b < W64) -> N.of_nat (length s) < W64 ->
  (validate_string (only_length (map (fun b => uint_range (fst b) (snd b)) bs)) s = Ok tt <->
   bs = [] \/ exists b, In b bs /\ fst b <= N.of_nat (length s) <= snd b).
Proof.
  intros bs s Hbs Hn. unfold validate_string, only_length; simpl t_length; simpl t_pattern; simpl t_posix.
  rewrite <- (length_ok_range bs (N.of_nat (length s)) Hbs Hn).
  destruct (length_ok _ _); simpl; split; intros H; try reflexivity; discriminate.
Qed.

Theorem validate_binary_length : forall (bs : list (N * N)) (bytes : list N),
  (forall b, In b bs -> fst b < W64 /\ snd b < W64) -> N.of_nat (length bytes) < W64 ->
  (validate_binary (only_length (map (fun b => uint_range (fst b) (snd b)) bs)) bytes = Ok tt <->
   bs = [] \/ exists b, In b bs /\ fst b <= N.of_nat (length bytes) <= snd b).
Proof.
  intros bs bytes Hbs Hn. unfold validate_binary, only_length; simpl t_length.
  rewrite verdict_ok. apply length_ok_range; assumption.
Qed.

(* --- patterns --- *)

(* one non-POSIX pattern, no length restriction *)
Lemma validate_one_pattern : forall p s,
  validate_string (only_pattern p) s =
  match parse_re false (fix_yang_regexp p) with
  | POk r => if search_b r s then Ok tt else Err
  | PErr => Err
  | PUnsup => Panic
  end.
Proof.
  intros p s. unfold validate_string, only_pattern; simpl t_length; simpl t_pattern; simpl t_posix.
  change (length_ok [] (N.of_nat (length s))) with true. cbn [sanitized_pattern nil_b map fst snd match_all].
  destruct (parse_re false (fix_yang_regexp p)); [destruct (search_b a s) | | ]; reflexivity.
Qed.

(* For a plain pattern whose sanitized form ^( esc p )$ parses to the wrapped expression, the
   verdict is a whole-string match; if moreover r has no anchors of its own, it is membership
   in the regular language of r. *)
Theorem pattern_whole : forall p r s, plainb the_cfg p = true ->
  parse_re false (wrap_str (esc the_cfg p)) = POk (wrap r) ->
  (validate_string (only_pattern p) s = Ok tt <-> whole r s).
Proof.
  intros p r s Hp Hr. rewrite validate_one_pattern. unfold fix_yang_regexp.
  rewrite (fix_shape_plain the_cfg p Hp), Hr, anchored_search, <- whole_b_spec.
  destruct (whole_b r s); split; intros H; try reflexivity; discriminate.
Qed.

Theorem pattern_lang : forall p r s, plainb the_cfg p = true ->
  parse_re false (wrap_str (esc the_cfg p)) = POk (wrap r) -> anchor_free r = true ->
  (validate_string (only_pattern p) s = Ok tt <-> L r s).
Proof.
  intros p r s Hp Hr Haf. rewrite (pattern_whole p r s Hp Hr). unfold whole. apply anchor_free_lang. assumption.
Qed.

(* end to end, with the parse hypothesis discharged by parse_wrap: the verdict for a plain
   pattern is membership in the language of the (escaped) pattern as Go parses it *)
Theorem pattern_lang_parsed : forall p r s, plainb the_cfg p = true ->
  parse_re false (esc the_cfg p) = POk r -> anchor_free r = true ->
  (validate_string (only_pattern p) s = Ok tt <-> L r s).
Proof.
  intros p r s Hp Hr Haf. apply pattern_lang; [assumption | apply parse_wrap; assumption | assumption].
Qed.

(* a sanitized pattern that does not compile rejects every value *)
Lemma pattern_all_fail : forall p, parse_re false (fix_yang_regexp p) = PErr ->
  forall s, validate_string (only_pattern p) s = Err.
Proof. intros p H s. rewrite validate_one_pattern, H. reflexivity. Qed.
