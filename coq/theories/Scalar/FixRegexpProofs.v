(* FixRegexpProofs.v — the output of fixYangRegexp, one lemma per case of the code.  The
   general lemmas (fix_gen, fix_no_caret, fix_caret) hold for every fix_cfg, so that they
   survive flipping FixRegexp.the_cfg; the lemmas that describe the defects are stated for
   cfg_now, their repaired counterparts for the flags that repair them. *)
From Ygot Require Import Base.Base Scalar.Regex Scalar.FixRegexp.
Open Scope N_scope.

Lemma utf8_len_pos : forall c, 1 <= utf8_len c.
Proof. intros c. unfold utf8_len. repeat (destruct (_ <? _)); lia. Qed.

Lemma byte_len_pos : forall c t, 1 <= byte_len (c :: t).
Proof. intros. simpl. pose proof (utf8_len_pos c). lia. Qed.

(* The byte-length test `i == len(pattern)-1` holds exactly at a last rune that is one byte long. *)
Lemma is_last_now : forall total i ch t, total = i + byte_len (ch :: t) ->
  (i =? total - 1) = nil_b t && (utf8_len ch =? 1).
Proof.
  intros total i ch t ->. pose proof (utf8_len_pos ch) as Hc.
  destruct t as [|c2 t']; cbn [nil_b andb byte_len].
  - destruct (N.eqb_spec (utf8_len ch) 1); [apply N.eqb_eq | apply N.eqb_neq]; lia.
  - pose proof (byte_len_pos c2 t'). cbn [byte_len] in *. apply N.eqb_neq. lia.
Qed.

Definition closing (addp : bool) : str := (if addp then [R_RPAR] else []) ++ [R_DOLLAR].

(* What the loop emits for the rest of the pattern:
   - if the end of the pattern is recognised (always with f_rune_end, otherwise only when the
     last rune is one byte long): the escaped text and the closing `)$`, where a final $ is the
     closing anchor itself (with f_esc_dollar: only if it is not escaped);
   - otherwise the escaped text and nothing else. *)
Definition tail_spec (cf : fix_cfg) (in_esc : bool) (prev : rune) (pe : bool) (addp : bool) (p : str) : str :=
  let eb := f_esc_bracket cf in
  if f_rune_end cf || (utf8_len (last p 0) =? 1) then
    (if (last p 0 =? R_DOLLAR) && (negb (f_esc_dollar cf) || negb (esc_state in_esc (removelast p)))
     then esc_mid eb in_esc prev pe (removelast p) else esc_mid eb in_esc prev pe p)
    ++ closing addp
  else esc_mid eb in_esc prev pe p.

Lemma dollar_single : forall ch, (ch =? R_DOLLAR) = true -> utf8_len ch = 1.
Proof. intros ch H. apply N.eqb_eq in H. subst. reflexivity. Qed.

Lemma esc_mid_cons : forall eb e prev pe ch t,
  esc_mid eb e prev pe (ch :: t) =
  (if ch =? R_DOLLAR then (if negb e then [R_BSL] else [])
   else if ch =? R_CARET then
     (if negb e && negb ((prev =? R_LBRK) && (if eb then negb pe else true)) then [R_BSL] else [])
   else []) ++ ch :: esc_mid eb (negb e && (ch =? R_BSL)) ch e t.
Proof. reflexivity. Qed.

Lemma fix_gen : forall cf galt p total i in_esc prev pe addp,
  total = i + byte_len p -> p <> [] -> (i = 0 -> head_is R_CARET p = false) ->
  fix_loop cf galt total i in_esc prev pe addp p =
  (if i =? 0 then [R_CARET; R_LPAR] else []) ++ tail_spec cf in_esc prev pe (addp || (i =? 0)) p.
Proof.
  intros cf galt. induction p as [|ch t IH]; intros total i in_esc prev pe addp Ht Hne Hc; [congruence | ].
  cbn [fix_loop]. rewrite (is_last_now total i ch t Ht).
  assert (Hfc : (i =? 0) && (ch =? R_CARET) = false).
  { destruct (N.eqb_spec i 0) as [E | E]; [ | reflexivity]. simpl. apply Hc in E. exact E. }
  rewrite Hfc. cbn [andb].
  assert (Hopen : (i =? 0) && negb (ch =? R_CARET) = (i =? 0)).
  { destruct (i =? 0) eqn:E; [ | reflexivity]. simpl in Hfc. rewrite Hfc. reflexivity. }
  rewrite Hopen.
  (* the escape inserted before ch is the one of esc_mid, up to the end-of-pattern exception *)
  assert (He : forall lastb,
     (if ch =? R_DOLLAR then if negb in_esc && negb lastb then [R_BSL] else []
      else if ch =? R_CARET then
        if negb in_esc && negb ((prev =? R_LBRK) && (if f_esc_bracket cf then negb pe else true)) && negb (i =? 0)
        then [R_BSL] else []
      else []) =
     (if ch =? R_DOLLAR then if negb in_esc && negb lastb then [R_BSL] else []
      else if ch =? R_CARET then
        if negb in_esc && negb ((prev =? R_LBRK) && (if f_esc_bracket cf then negb pe else true))
        then [R_BSL] else []
      else [])).
  { intros lastb. destruct (ch =? R_DOLLAR); [reflexivity | ]. destruct (ch =? R_CARET) eqn:Ec; [ | reflexivity].
    rewrite andb_true_r in Hfc. rewrite Hfc. rewrite andb_true_r. reflexivity. }
  rewrite He. clear He.
  destruct t as [|c2 t'].
  - (* ch is the last rune *)
    cbn [nil_b andb fix_loop]. unfold tail_spec. cbn [last removelast esc_state]. rewrite !app_nil_r.
    destruct (f_rune_end cf) eqn:RE; cbn [orb].
    + (* rune-aware end test *)
      destruct (ch =? R_DOLLAR) eqn:D.
      * apply N.eqb_eq in D. subst ch. cbn [negb andb esc_mid]. rewrite !andb_false_r.
        change (R_DOLLAR =? R_DOLLAR) with true. unfold closing.
        destruct (f_esc_dollar cf), in_esc, addp, (i =? 0); reflexivity.
      * rewrite esc_mid_cons, D. cbn [negb andb esc_mid]. rewrite ?andb_true_r. unfold closing.
        destruct (addp || (i =? 0)); destruct (i =? 0); cbn [app]; rewrite <- ?app_assoc; reflexivity.
    + destruct (utf8_len ch =? 1) eqn:U.
      * destruct (ch =? R_DOLLAR) eqn:D.
        -- apply N.eqb_eq in D. subst ch. cbn [negb andb esc_mid]. rewrite !andb_false_r.
           change (R_DOLLAR =? R_DOLLAR) with true. unfold closing.
           destruct (f_esc_dollar cf), in_esc, addp, (i =? 0); reflexivity.
        -- rewrite esc_mid_cons, D. cbn [negb andb esc_mid]. rewrite ?andb_true_r. unfold closing.
           destruct (addp || (i =? 0)); destruct (i =? 0); cbn [app]; rewrite <- ?app_assoc; reflexivity.
      * assert (D : (ch =? R_DOLLAR) = false).
        { destruct (ch =? R_DOLLAR) eqn:D; [ | reflexivity]. apply dollar_single in D. rewrite D in U. discriminate. }
        rewrite esc_mid_cons, D. cbn [negb andb esc_mid]. rewrite !app_nil_r.
        destruct (i =? 0); cbn [app]; rewrite <- ?app_assoc; reflexivity.
  - (* more runes follow *)
    assert (Hl : (if f_rune_end cf then nil_b (c2 :: t') else nil_b (c2 :: t') && (utf8_len ch =? 1)) = false)
      by (destruct (f_rune_end cf); reflexivity).
    rewrite Hl. cbn [andb negb]. rewrite !andb_true_r.
    pose proof (utf8_len_pos ch) as Hu.
    rewrite (IH total (i + utf8_len ch) (negb in_esc && (ch =? R_BSL)) ch in_esc (addp || (i =? 0))).
    + replace (i + utf8_len ch =? 0) with false by (symmetry; apply N.eqb_neq; lia).
      rewrite orb_false_r. unfold tail_spec.
      change (last (ch :: c2 :: t') 0) with (last (c2 :: t') 0).
      change (removelast (ch :: c2 :: t')) with (ch :: removelast (c2 :: t')).
      set (T := c2 :: t'). set (R := removelast T).
      change (esc_state in_esc (ch :: R)) with (esc_state (negb in_esc && (ch =? R_BSL)) R).
      destruct (f_rune_end cf || (utf8_len (last T 0) =? 1));
        [destruct ((last T 0 =? R_DOLLAR) && (negb (f_esc_dollar cf) || negb (esc_state (negb in_esc && (ch =? R_BSL)) R))) | ];
        rewrite ?(esc_mid_cons _ in_esc prev pe ch T), ?(esc_mid_cons _ in_esc prev pe ch R);
        destruct (i =? 0); cbn [app]; rewrite <- ?app_assoc; cbn [app]; reflexivity.
    + rewrite Ht. cbn [byte_len]. lia.
    + discriminate.
    + intros E. lia.
Qed.

(* ---- top level, any configuration ---- *)

Lemma fix_empty : forall cf, fix_with cf [] = [].
Proof. intros. unfold fix_with. rewrite andb_false_r. reflexivity. Qed.

(* patterns that do not start with ^ *)
Lemma fix_no_caret : forall cf p, p <> [] -> head_is R_CARET p = false ->
  fix_with cf p = [R_CARET; R_LPAR] ++ tail_spec cf false 0 false true p.
Proof.
  intros cf p Hne Hc. unfold fix_with.
  rewrite (fix_gen cf _ p (byte_len p) 0 false 0 false false); auto.
Qed.

(* patterns that start with ^: grouped only by the repaired code, and only if they contain | *)
Lemma fix_caret : forall cf t,
  fix_with cf (R_CARET :: t) =
  if f_group_alt cf && has_bar t then [R_CARET; R_LPAR] ++ tail_spec cf false R_CARET false true t
  else R_CARET :: (if nil_b t then [R_DOLLAR] else tail_spec cf false R_CARET false false t).
Proof.
  intros cf t. unfold fix_with.
  change (existsb (fun c : N => c =? R_BAR) (R_CARET :: t)) with (has_bar t).
  cbn [fix_loop]. change (0 =? 0) with true. change (R_CARET =? R_CARET) with true. cbn [andb].
  change (0 + utf8_len R_CARET) with 1.
  destruct (f_group_alt cf && has_bar t) eqn:G.
  - (* grouped: has_bar t, hence t <> [] *)
    assert (Hne : t <> []).
    { intros ->. rewrite andb_false_r in G. discriminate. }
    rewrite (fix_gen cf true t (byte_len (R_CARET :: t)) 1 false R_CARET false true); auto.
    discriminate.
  - rewrite (is_last_now (byte_len (R_CARET :: t)) 0 R_CARET t) by reflexivity.
    change (R_CARET =? R_DOLLAR) with false. change (R_CARET =? R_BSL) with false.
    change (utf8_len R_CARET) with 1. change (1 =? 1) with true.
    cbn [andb negb orb app]. rewrite !andb_false_r. cbn [app]. rewrite !andb_true_r.
    assert (Hl : (if f_rune_end cf then nil_b t else nil_b t) = nil_b t) by (destruct (f_rune_end cf); reflexivity).
    rewrite Hl.
    destruct t as [|c2 t'].
    + reflexivity.
    + cbn [nil_b app]. f_equal.
      rewrite (fix_gen cf false (c2 :: t') (byte_len (R_CARET :: c2 :: t')) 1 false R_CARET false false).
      * reflexivity.
      * reflexivity.
      * discriminate.
      * discriminate.
Qed.

Lemma snoc_ne : forall (b : str) c, b ++ [c] <> [].
Proof. intros b c E. apply app_eq_nil in E as [_ E]. discriminate E. Qed.

Lemma last_app1 : forall (b : str) c, last (b ++ [c]) 0 = c.
Proof. intros. apply last_last. Qed.

(* Case 1 (the documented behaviour, any configuration): ^( escaped pattern )$ *)
Theorem fix_shape_plain : forall cf p, plainb cf p = true ->
  fix_with cf p = wrap_str (esc cf p).
Proof.
  intros cf p H. unfold plainb in H.
  apply andb_prop in H as [H H4]. apply andb_prop in H as [H H3]. apply andb_prop in H as [H1 H2].
  assert (Hne : p <> []) by (destruct p; [discriminate | discriminate]).
  apply negb_true_iff in H2. rewrite (fix_no_caret cf p Hne H2).
  unfold tail_spec, last_single in *. rewrite H3.
  unfold last_is in H4. apply negb_true_iff in H4. rewrite H1 in H4. simpl in H4. rewrite H4.
  unfold wrap_str, esc, closing. reflexivity.
Qed.

(* ---- the code as it is (cfg_now), one lemma per remaining case ---- *)

(* Case 2: a trailing $ is taken as the closing anchor — whether or not a backslash precedes it *)
Theorem fix_shape_dollar : forall b, head_is R_CARET (b ++ [R_DOLLAR]) = false ->
  fix_with cfg_now (b ++ [R_DOLLAR]) = wrap_str (esc cfg_now b).
Proof.
  intros b Hc. rewrite (fix_no_caret cfg_now _ (snoc_ne b R_DOLLAR) Hc).
  unfold tail_spec. rewrite last_app1, removelast_last.
  change (utf8_len R_DOLLAR =? 1) with true. change (R_DOLLAR =? R_DOLLAR) with true.
  unfold wrap_str, esc, closing. reflexivity.
Qed.

(* Case 3: a pattern that starts with ^ is not grouped *)
Theorem fix_shape_caret : forall t, t <> [] -> last_single t = true -> last_is R_DOLLAR t = false ->
  fix_with cfg_now (R_CARET :: t) = R_CARET :: esc_mid false false R_CARET false t ++ [R_DOLLAR].
Proof.
  intros t Hne Hs Hd. rewrite fix_caret. cbn [cfg_now f_group_alt andb].
  destruct t as [|c t']; [congruence | ].
  cbn [nil_b]. unfold tail_spec, last_single, last_is in *. cbn [cfg_now f_rune_end orb]. rewrite Hs.
  cbn [nil_b negb andb] in Hd. rewrite Hd. reflexivity.
Qed.

Theorem fix_shape_caret_only : fix_with cfg_now [R_CARET] = [R_CARET; R_DOLLAR].
Proof. reflexivity. Qed.

Theorem fix_shape_caret_dollar : forall b,
  fix_with cfg_now (R_CARET :: b ++ [R_DOLLAR]) =
  R_CARET :: esc_mid false false R_CARET false b ++ [R_DOLLAR].
Proof.
  intros b. rewrite fix_caret. cbn [cfg_now f_group_alt andb].
  destruct (b ++ [R_DOLLAR]) eqn:E; [exfalso; exact (snoc_ne _ _ E) | ].
  cbn [nil_b]. rewrite <- E. unfold tail_spec. rewrite last_app1, removelast_last.
  change (utf8_len R_DOLLAR =? 1) with true. change (R_DOLLAR =? R_DOLLAR) with true. reflexivity.
Qed.

(* Case 4: the last rune takes more than one byte: the loop never sees "the end", nothing is closed *)
Theorem fix_shape_multibyte : forall p, p <> [] -> head_is R_CARET p = false -> last_single p = false ->
  fix_with cfg_now p = [R_CARET; R_LPAR] ++ esc cfg_now p.
Proof.
  intros p Hne Hc Hs. rewrite (fix_no_caret cfg_now p Hne Hc). unfold tail_spec, last_single in *.
  cbn [cfg_now f_rune_end orb]. rewrite Hs. reflexivity.
Qed.

Theorem fix_shape_caret_multibyte : forall t, t <> [] -> last_single t = false ->
  fix_with cfg_now (R_CARET :: t) = R_CARET :: esc_mid false false R_CARET false t.
Proof.
  intros t Hne Hs. rewrite fix_caret. cbn [cfg_now f_group_alt andb]. destruct t; [congruence | ]. cbn [nil_b].
  unfold tail_spec, last_single in *. cbn [cfg_now f_rune_end orb]. rewrite Hs. reflexivity.
Qed.

(* ---- the repaired code ---- *)

(* with f_group_alt, ^body containing | is grouped: ^( body )$ *)
Theorem fix_shape_caret_alt_fixed : forall cf t, f_group_alt cf = true -> has_bar t = true ->
  (f_rune_end cf || last_single t) = true -> last_is R_DOLLAR t = false ->
  fix_with cf (R_CARET :: t) = wrap_str (esc_mid (f_esc_bracket cf) false R_CARET false t).
Proof.
  intros cf t G B Hs Hd. rewrite fix_caret, G, B. cbn [andb].
  assert (Hne : nil_b t = false) by (destruct t; [discriminate B | reflexivity]).
  unfold tail_spec, last_single, last_is in *. rewrite Hs. rewrite Hne in Hd. cbn [negb andb] in Hd. rewrite Hd.
  unfold wrap_str, closing. reflexivity.
Qed.

(* The escaping pass is the identity on patterns without ^ and $. *)
Lemma esc_mid_id : forall eb p e prev pe,
  forallb (fun c => negb (c =? R_DOLLAR) && negb (c =? R_CARET)) p = true -> esc_mid eb e prev pe p = p.
Proof.
  intros eb. induction p as [|c t IH]; intros e prev pe H; [reflexivity | ].
  simpl in H. apply andb_prop in H as [Hc Ht]. apply andb_prop in Hc as [H1 H2].
  apply negb_true_iff in H1, H2. rewrite esc_mid_cons. rewrite H1, H2. cbn [app]. f_equal. apply IH. exact Ht.
Qed.

Theorem esc_id : forall cf p,
  forallb (fun c => negb (c =? R_DOLLAR) && negb (c =? R_CARET)) p = true -> esc cf p = p.
Proof. intros. apply esc_mid_id. assumption. Qed.
