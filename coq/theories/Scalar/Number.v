(* Number.v — model of goyang's yang.Number (pkg/yang/types_builtin.go), the value type in
   which ygot compares every integer, decimal64 and length against range/length restrictions.
   Definitions only; proofs are in NumberProofs.v.

   Go:  type Number struct { Value uint64; FractionDigits uint8; Negative bool }
   All uint64/uint8 arithmetic is modelled with explicit wrap-around, so the model is exact for
   every Number with FractionDigits < 64 (for FractionDigits >= 64, pow10 wraps to 0 and Go
   panics with a division by zero in Trunc; such Numbers are never produced by ygot or goyang). *)
From Ygot Require Import Base.Base.

Record number := Num { nval : N; nfd : N; nneg : bool }.

Definition W64 : N := 18446744073709551616.          (* 2^64 *)
Definition w64 (x : N) : N := x mod W64.
Definition u64sub (a b : N) : N := (a + W64 - b) mod W64.   (* uint64 a - b, for a, b < 2^64 *)
Definition u8sub (a b : N) : N := (a + 256 - b) mod 256.    (* uint8 a - b, for a, b < 256 *)

(* func pow10(e uint8) uint64 { out := 1; for i := 0; i < e; i++ { out *= 10 }; return out } *)
Fixpoint pow10_loop (e : nat) (out : N) : N :=
  match e with
  | O => out
  | S e' => pow10_loop e' (w64 (out * 10))
  end.
Definition pow10 (e : N) : N := pow10_loop (N.to_nat e) 1.

(* func (n Number) Trunc() uint64 { return n.Value / pow10(n.FractionDigits) } *)
Definition trunc (n : number) : N := nval n / pow10 (nfd n).

(* func (n Number) frac() uint64 {
     frac := n.FractionDigits; i := n.Trunc() * pow10(frac)
     return (n.Value - i) * pow10(uint8(18-frac)) } *)
Definition frac (n : number) : N :=
  let i := w64 (trunc n * pow10 (nfd n)) in
  w64 (u64sub (nval n) i * pow10 (u8sub 18 (nfd n))).

(* func (n Number) Less(m Number) bool *)
Definition less (n m : number) : bool :=
  if nneg n && negb (nneg m) then true
  else if negb (nneg n) && nneg m then false
  else
    let nt := trunc n in
    let mt := trunc m in
    if nt =? mt then
      let nf := frac n in
      let mf := frac m in
      if nf =? mf then false
      else if nneg n then negb (nf <? mf) else nf <? mf
    else if nneg n then negb (nt <? mt) else nt <? mt.

(* func (n Number) Equal(m Number) bool { return !n.Less(m) && !m.Less(n) } *)
Definition equal (n m : number) : bool := negb (less n m) && negb (less m n).

(* func FromInt(i int64) Number: uint64(-i) is 2^63 for MinInt64, which Z.to_N (-z) also gives *)
Definition from_int (z : Z) : number :=
  if (z <? 0)%Z then Num (Z.to_N (- z)) 0 true else Num (Z.to_N z) 0 false.
(* func FromUint(i uint64) Number *)
Definition from_uint (n : N) : number := Num n 0 false.

(* ---- specification side ---- *)

Definition E18 : N := 1000000000000000000.          (* 10^18 *)

(* A Number as goyang and ygot build them: 64-bit magnitude, at most 18 fraction digits, no
   negative zero (FromInt, FromUint, ParseInt, ParseDecimal never set Negative on zero). *)
Definition wf_num (n : number) : bool :=
  (nval n <? W64) && (nfd n <=? 18) && negb (nneg n && (nval n =? 0)).

(* The rational value of a Number, scaled by 10^18 so that it is an integer:
   scaled n = (-1)^Negative * Value * 10^(18 - FractionDigits) = 10^18 * (Value / 10^FractionDigits). *)
Definition mag (n : number) : N := nval n * 10 ^ (18 - nfd n).
Definition scaled (n : number) : Z :=
  if nneg n then (- Z.of_N (mag n))%Z else Z.of_N (mag n).
