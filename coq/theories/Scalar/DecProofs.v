(* DecProofs.v — round trip between the decimal text of integers (dec_of_N / dec_of_Z, Go's %d)
   and the strconv-style parsers of Dec.v, the lexical shape of that text, injectivity. *)
From Ygot Require Import Base.Base Scalar.Dec.
From Coq Require Import Decimal DecimalFacts DecimalPos DecimalN.

(* ---------- uint <-> rune list ---------- *)

Lemma str_to_uint_to_str u : str_to_uint (uint_to_str u) = Some u.
Proof. induction u; cbn [uint_to_str str_to_uint]; try rewrite IHu; reflexivity. Qed.

Lemma uint_to_str_nil u : uint_to_str u = [] -> u = Nil.
Proof. destruct u; simpl; congruence. Qed.

Lemma N_to_uint_nonnil n : N.to_uint n <> Nil.
Proof.
  destruct n as [|p]; simpl.
  - discriminate.
  - apply DecimalPos.Unsigned.to_uint_nonnil.
Qed.

Lemma dec_of_N_nonempty n : dec_of_N n <> [].
Proof. unfold dec_of_N. intros H. apply uint_to_str_nil in H. now apply N_to_uint_nonnil in H. Qed.

(* ---------- lexical shape ---------- *)

Definition digitb (c : rune) : bool := (48 <=? c) && (c <=? 57).
(* one or more ASCII digits *)
Definition digitsb (s : str) : bool := negb (nil_b s) && forallb digitb s.
(* RFC 7950 9.2.1 lexical form of an integer as ygot emits it: optional '-', then one or more
   digits; in particular no '+', no exponent, no fraction, no blanks, not empty. *)
Definition dec_lexical (s : str) : bool :=
  match s with
  | [] => false
  | c :: t => if c =? MINUS then digitsb t else digitsb s
  end.

Lemma uint_to_str_digits u : forallb digitb (uint_to_str u) = true.
Proof. induction u; simpl; auto. Qed.

Lemma dec_of_N_digitsb n : digitsb (dec_of_N n) = true.
Proof.
  unfold digitsb. pose proof (dec_of_N_nonempty n) as H.
  unfold dec_of_N in *. rewrite uint_to_str_digits.
  destruct (uint_to_str (N.to_uint n)); [congruence | reflexivity].
Qed.

Lemma digitb_not_sign c : digitb c = true -> (c =? MINUS) = false /\ (c =? PLUS) = false.
Proof.
  unfold digitb, MINUS, PLUS. intros H. apply andb_true_iff in H as [H1 H2].
  apply N.leb_le in H1. apply N.leb_le in H2.
  split; apply N.eqb_neq; lia.
Qed.

(* the first rune of a natural number's text is a digit *)
Lemma dec_of_N_head n : exists c t, dec_of_N n = c :: t /\ digitb c = true.
Proof.
  pose proof (dec_of_N_digitsb n) as H. unfold digitsb in H.
  destruct (dec_of_N n) as [|c t]; [discriminate|].
  simpl in H. apply andb_true_iff in H as [H _]. eauto.
Qed.

(* ---------- round trips ---------- *)

Theorem parse_digits_dec_of_N : forall n, parse_digits (dec_of_N n) = Some n.
Proof.
  intros n. pose proof (dec_of_N_nonempty n) as Hne.
  unfold parse_digits. destruct (dec_of_N n) as [|c t] eqn:E; [congruence|].
  rewrite <- E. unfold dec_of_N. rewrite str_to_uint_to_str. simpl.
  now rewrite DecimalN.Unsigned.of_to.
Qed.

Theorem parse_Z_dec_of_Z : forall z, parse_Z (dec_of_Z z) = Some z.
Proof.
  intros [|p|p]; unfold dec_of_Z.
  - reflexivity.
  - destruct (dec_of_N_head (N.pos p)) as (c & t & E & Hd).
    apply digitb_not_sign in Hd as [Hm Hp].
    unfold parse_Z. rewrite E, Hm, Hp. rewrite <- E, parse_digits_dec_of_N. reflexivity.
  - unfold parse_Z. change (MINUS =? MINUS) with true. cbv iota.
    rewrite parse_digits_dec_of_N. reflexivity.
Qed.

Theorem parse_int_range_roundtrip : forall lo hi z,
  (lo <= z <= hi)%Z -> parse_int_range lo hi (dec_of_Z z) = Some z.
Proof.
  intros lo hi z [H1 H2]. unfold parse_int_range. rewrite parse_Z_dec_of_Z.
  apply Z.leb_le in H1. apply Z.leb_le in H2. now rewrite H1, H2.
Qed.

Lemma parse_digits_dec_of_Z_nonneg z : (0 <= z)%Z -> parse_digits (dec_of_Z z) = Some (Z.to_N z).
Proof.
  destruct z as [|p|p]; intros H.
  - reflexivity.
  - unfold dec_of_Z. now rewrite parse_digits_dec_of_N.
  - lia.
Qed.

Theorem parse_uint_range_roundtrip : forall hi z,
  (0 <= z <= hi)%Z -> parse_uint_range hi (dec_of_Z z) = Some z.
Proof.
  intros hi z [H1 H2]. unfold parse_uint_range.
  rewrite parse_digits_dec_of_Z_nonneg by assumption.
  rewrite Z2N.id by assumption.
  apply Z.leb_le in H2. now rewrite H2.
Qed.

(* converse direction of the range parsers: whatever they accept is in range *)
Lemma parse_int_range_bounds lo hi s z : parse_int_range lo hi s = Some z -> (lo <= z <= hi)%Z.
Proof.
  unfold parse_int_range. destruct (parse_Z s) as [y|]; [|discriminate].
  destruct (lo <=? y)%Z eqn:E1; [|discriminate]. destruct (y <=? hi)%Z eqn:E2; [|discriminate].
  simpl. intros [= <-]. apply Z.leb_le in E1. apply Z.leb_le in E2. lia.
Qed.

Lemma parse_uint_range_bounds hi s z : parse_uint_range hi s = Some z -> (0 <= z <= hi)%Z.
Proof.
  unfold parse_uint_range. destruct (parse_digits s) as [n|]; [|discriminate].
  destruct (Z.of_N n <=? hi)%Z eqn:E; [|discriminate].
  intros [= <-]. apply Z.leb_le in E. lia.
Qed.

(* ---------- lexical form of %d ---------- *)

Theorem dec_of_Z_digits : forall z, dec_lexical (dec_of_Z z) = true.
Proof.
  intros [|p|p]; unfold dec_of_Z.
  - reflexivity.
  - destruct (dec_of_N_head (N.pos p)) as (c & t & E & Hd).
    apply digitb_not_sign in Hd as [Hm _].
    unfold dec_lexical. rewrite E, Hm, <- E. apply dec_of_N_digitsb.
  - unfold dec_lexical. change (MINUS =? MINUS) with true. cbv iota. apply dec_of_N_digitsb.
Qed.

(* a lexical integer never starts with '+' *)
Lemma dec_lexical_no_plus s : dec_lexical s = true -> hd 0 s <> PLUS.
Proof.
  destruct s as [|c t]; [discriminate|]. unfold dec_lexical. simpl hd.
  destruct (c =? MINUS) eqn:E.
  - apply N.eqb_eq in E. subst. discriminate.
  - unfold digitsb. simpl. intros H. apply andb_true_iff in H as [H _].
    apply digitb_not_sign in H as [_ H]. now apply N.eqb_neq in H.
Qed.

(* ---------- canonical form (RFC 7950 9.2.2): no leading zeros, no "-0" ---------- *)

Definition canon_digits (ds : str) : bool :=
  digitsb ds && match ds with d :: _ :: _ => negb (d =? DZERO) | _ => true end.
Definition dec_canonical (s : str) : bool :=
  match s with
  | [] => false
  | c :: t => if c =? MINUS then canon_digits t && negb (hd 0 t =? DZERO) else canon_digits s
  end.

Lemma nzhead_no_D0 d u : nzhead d <> D0 u.
Proof. induction d; simpl; try discriminate; auto. Qed.

Lemma pos_to_uint_no_D0 p u : Pos.to_uint p <> D0 u.
Proof.
  intros H. pose proof (DecimalN.Unsigned.to_of (N.to_uint (N.pos p))) as E.
  rewrite DecimalN.Unsigned.of_to in E. simpl in E. unfold unorm in E.
  destruct (nzhead (Pos.to_uint p)) eqn:Z;
    try (rewrite H in E; discriminate).
  - now apply DecimalPos.Unsigned.to_uint_nonzero in E.
  - now apply nzhead_no_D0 in Z.
Qed.

Lemma uint_to_str_head0 u : hd 0 (uint_to_str u) = DZERO -> exists u', u = D0 u'.
Proof. destruct u; simpl; intros H; try discriminate; eauto. Qed.

Lemma dec_of_pos_head p : (hd 0 (dec_of_N (N.pos p)) =? DZERO) = false.
Proof.
  apply N.eqb_neq. intros H. unfold dec_of_N in H. simpl in H.
  apply uint_to_str_head0 in H as [u' H]. now apply pos_to_uint_no_D0 in H.
Qed.

Lemma dec_of_pos_canon p : canon_digits (dec_of_N (N.pos p)) = true.
Proof.
  unfold canon_digits. rewrite dec_of_N_digitsb. pose proof (dec_of_pos_head p) as H.
  destruct (dec_of_N (N.pos p)) as [|d [|d' t]]; try reflexivity.
  simpl in *. now rewrite H.
Qed.

Theorem dec_of_Z_canonical : forall z, dec_canonical (dec_of_Z z) = true.
Proof.
  intros [|p|p]; unfold dec_of_Z.
  - reflexivity.
  - destruct (dec_of_N_head (N.pos p)) as (c & t & E & Hd).
    apply digitb_not_sign in Hd as [Hm _].
    unfold dec_canonical. rewrite E, Hm, <- E. apply dec_of_pos_canon.
  - unfold dec_canonical. change (MINUS =? MINUS) with true. cbv iota.
    now rewrite dec_of_pos_canon, dec_of_pos_head.
Qed.

(* ---------- injectivity ---------- *)

Theorem dec_of_Z_inj : forall a b, dec_of_Z a = dec_of_Z b -> a = b.
Proof.
  intros a b H. pose proof (parse_Z_dec_of_Z a) as Ha. rewrite H, parse_Z_dec_of_Z in Ha. congruence.
Qed.

Theorem dec_of_N_inj : forall a b, dec_of_N a = dec_of_N b -> a = b.
Proof.
  intros a b H. pose proof (parse_digits_dec_of_N a) as Ha. rewrite H, parse_digits_dec_of_N in Ha. congruence.
Qed.

Print Assumptions parse_Z_dec_of_Z.
Print Assumptions dec_of_Z_digits.
Print Assumptions dec_of_Z_canonical.
