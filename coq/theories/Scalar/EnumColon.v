(* EnumColon.v — enumeration tables whose names may contain ':' (C17, extension).
   Definitions only.  A YANG enum name is an arbitrary string (RFC 7950 9.6.4.2), e.g.
     enum "ipv4:unicast"; enum "ipv6:labeled-unicast"; enum plain;
   and the generator accepts such names (':' becomes _COLON in the Go identifier, the ΛEnum
   table keeps the YANG name).  The code modelled is the same as in Scalar/EnumTable.v:
     ytypes/util_types.go : castToEnumValue  (= Codec.enum_cast; compares
                            util.StripModulePrefix(v.Name) == util.StripModulePrefix(value))
     util/path.go         : StripModulePrefix (= Codec.strip_mod; "a:b" -> "b", a string with no
                            ':' or with two or more ':' is returned unchanged)
     ygot/struct_validation_map.go : enumFieldToString (= EnumTable.enum_field_to_string)
   What changes is the well-formedness predicate: EnumTable.tbl_wf forbids ':' in names; here
   the KEY castToEnumValue really compares (the name with one prefix stripped) has to be
   non-empty and pairwise distinct instead. *)
From Ygot Require Import Tree.Tree Tree.Codec Scalar.EnumTable.

(* the key castToEnumValue compares for a table entry: util.StripModulePrefix(v.Name) *)
Definition ev_key (e : enumval) : str := strip_mod (ev_name e).

Definition has_colon (s : str) : bool := negb (no_colon s).

Fixpoint keys_distinctb (t : list enumval) : bool :=
  match t with
  | [] => true
  | e :: r => negb (existsb (fun e' => str_eqb (ev_key e) (ev_key e')) r) && keys_distinctb r
  end.

(* one entry: the key is non-empty (hence the name is), the defining module has no ':', and an
   identity (the entries that carry a defining module; identity names are YANG identifiers) has
   no ':' in its name, so that the "module:name" form of RFC 7951 has exactly one ':' *)
Definition entry_okb (e : enumval) : bool :=
  negb (nil_b (ev_key e)) && no_colon (ev_mod e) && (nil_b (ev_mod e) || no_colon (ev_name e)).

Definition entries_okb (t : list enumval) : bool := forallb entry_okb t.

(* the checker for tables with ':' in names *)
Definition tblc_okb (t : list enumval) : bool :=
  nums_distinctb t && keys_distinctb t && zero_freeb t && entries_okb t.

Definition tblc_diag (t : list enumval) : bool * bool * bool * bool :=
  (nums_distinctb t, keys_distinctb t, zero_freeb t, entries_okb t).

(* what tblc_okb decides *)
Definition tblc_wf (t : list enumval) : Prop :=
  NoDup (map ev_num t) /\
  NoDup (map ev_key t) /\
  ~ In 0%Z (map ev_num t) /\
  Forall (fun e => ev_key e <> [] /\ ~ In COLON (ev_mod e) /\ (ev_mod e <> [] -> ~ In COLON (ev_name e))) t.

(* the C17 statement about one such table: names, values and keys unique, UNSET undefined,
   every defined value's name and rendered text parse back to the value, and the accepted
   strings are exactly those whose stripped form is the key of the value's entry *)
Definition colon_table_statement (t : list enumval) : Prop :=
  NoDup (map ev_name t) /\ NoDup (map ev_num t) /\ NoDup (map ev_key t) /\ enum_by_num t 0 = None /\
  (forall n e, enum_by_num t n = Some e ->
     enum_parse t (ev_name e) = Ok n /\ forall pmi, enum_parse t (enum_text pmi e) = Ok n) /\
  (forall s n, enum_parse t s = Ok n <-> exists e, enum_by_num t n = Some e /\ ev_key e = strip_mod s).

(* a YANG enumeration statement whose names may contain ':' as the generator + castToEnumValue
   need it: distinct non-empty keys, distinct values, no value -1 *)
Definition yang_enumc_wf (vals : list (str * Z)) : Prop :=
  NoDup (map (fun p => strip_mod (fst p)) vals) /\ NoDup (map snd vals) /\ ~ In (-1)%Z (map snd vals) /\
  Forall (fun p => strip_mod (fst p) <> []) vals.

(* ---------- the regenerated obligation: one check per table ---------- *)

Definition tbl_has_colonb (t : list enumval) : bool := existsb (fun e => has_colon (ev_name e)) t.

(* a table with a ':' in some name is checked by tblc_okb, any other by EnumTable.tbl_okb_full *)
Definition tbl_checkb (t : list enumval) : bool :=
  if tbl_has_colonb t then tblc_okb t else tbl_okb_full t.

(* diagnostics: index, "has a colon name", and the four checks of the predicate that applies *)
Definition tbl_check_diag (t : list enumval) : bool * (bool * bool * bool * bool) :=
  (tbl_has_colonb t, if tbl_has_colonb t then tblc_diag t else tbl_diag t).

Fixpoint bad_tables_c_from (i : nat) (ts : list (str * str * list enumval))
  : list (nat * (bool * (bool * bool * bool * bool))) :=
  match ts with
  | [] => []
  | t :: r => if tbl_checkb (snd t) then bad_tables_c_from (S i) r
              else (i, tbl_check_diag (snd t)) :: bad_tables_c_from (S i) r
  end.
Definition bad_tables_c := bad_tables_c_from 0.
