(* NumberSpec.v — the rational number denoted by a yang.Number (specification side only; kept
   apart from Number.v so that the correspondence case files do not load QArith). *)
From Ygot Require Import Base.Base Scalar.Number.
From Coq Require Import QArith.

(* (-1)^Negative * Value / 10^FractionDigits *)
Definition denoteQ (n : number) : Q :=
  let q := Qmake (Z.of_N (nval n)) (Z.to_pos (Z.of_N (10 ^ nfd n))) in
  if nneg n then Qopp q else q.
