(* Dec.v — decimal text of integers (Go %d / strconv.FormatInt) and strconv.ParseInt/ParseUint
   in base 10, on rune lists. Built on Coq's Decimal.uint so that the round trip follows from
   the standard library (DecProofs.v). *)
From Ygot Require Import Base.Base.
From Coq Require Import Decimal DecimalN.

Definition DZERO : rune := 48.
Definition MINUS : rune := 45.
Definition PLUS : rune := 43.

Fixpoint uint_to_str (u : Decimal.uint) : str :=
  match u with
  | Nil => []
  | D0 u => 48 :: uint_to_str u | D1 u => 49 :: uint_to_str u | D2 u => 50 :: uint_to_str u
  | D3 u => 51 :: uint_to_str u | D4 u => 52 :: uint_to_str u | D5 u => 53 :: uint_to_str u
  | D6 u => 54 :: uint_to_str u | D7 u => 55 :: uint_to_str u | D8 u => 56 :: uint_to_str u
  | D9 u => 57 :: uint_to_str u
  end.

Fixpoint str_to_uint (s : str) : option Decimal.uint :=
  match s with
  | [] => Some Nil
  | c :: t =>
      match str_to_uint t with
      | None => None
      | Some u =>
          if c =? 48 then Some (D0 u) else if c =? 49 then Some (D1 u) else if c =? 50 then Some (D2 u)
          else if c =? 51 then Some (D3 u) else if c =? 52 then Some (D4 u) else if c =? 53 then Some (D5 u)
          else if c =? 54 then Some (D6 u) else if c =? 55 then Some (D7 u) else if c =? 56 then Some (D8 u)
          else if c =? 57 then Some (D9 u) else None
      end
  end.

(* %d of a natural number: N.to_uint gives "0" for zero and no leading zeros otherwise *)
Definition dec_of_N (n : N) : str := uint_to_str (N.to_uint n).
Definition dec_of_Z (z : Z) : str :=
  match z with
  | Z0 => [DZERO]
  | Zpos p => dec_of_N (Npos p)
  | Zneg p => MINUS :: dec_of_N (Npos p)
  end.

(* one or more decimal digits (leading zeros allowed, as strconv does) *)
Definition parse_digits (s : str) : option N :=
  match s with
  | [] => None
  | _ => option_map N.of_uint (str_to_uint s)
  end.

(* strconv.ParseInt(s, 10, 64)-style syntax: optional sign, digits; no range check here *)
Definition parse_Z (s : str) : option Z :=
  match s with
  | c :: t =>
      if c =? MINUS then option_map (fun n => (- Z.of_N n)%Z) (parse_digits t)
      else if c =? PLUS then option_map Z.of_N (parse_digits t)
      else option_map Z.of_N (parse_digits s)
  | [] => None
  end.

(* strconv.ParseInt(s, 10, bits) / ParseUint: syntax + range *)
Definition parse_int_range (lo hi : Z) (s : str) : option Z :=
  match parse_Z s with
  | Some z => if (lo <=? z)%Z && (z <=? hi)%Z then Some z else None
  | None => None
  end.
(* ParseUint rejects any sign *)
Definition parse_uint_range (hi : Z) (s : str) : option Z :=
  match parse_digits s with
  | Some n => if (Z.of_N n <=? hi)%Z then Some (Z.of_N n) else None
  | None => None
  end.
