(* Base64Proofs.v — base64 StdEncoding: decode (encode bs) = bs for byte lists, the alphabet of
   the encoder's output, and the decoder only produces bytes. *)
From Ygot Require Import Base.Base Scalar.Base64.
From Coq Require Import ZifyN ZifyBool.
#[local] Ltac Zify.zify_post_hook ::= Z.div_mod_to_equations.

(* ---------- the alphabet ---------- *)

(* a rune of the base64 alphabet, or the padding rune '=' *)
Definition b64_alphab (c : rune) : bool :=
  match b64_val c with Some _ => true | None => c =? PAD end.

Lemma b64_val_char n : n < 64 -> b64_val (b64_char n) = Some n.
Proof.
  intros H. unfold b64_char.
  destruct (n <? 26) eqn:E1; [|destruct (n <? 52) eqn:E2; [|destruct (n <? 62) eqn:E3;
    [|destruct (n =? 62) eqn:E4]]]; unfold b64_val;
  repeat match goal with
         | |- context [if ?b then _ else _] => destruct b eqn:?
         end; try (f_equal; lia); try lia.
Qed.

(* for any argument b64_char yields one of A-Z a-z 0-9 + / *)
Lemma b64_val_char_some n : exists v, b64_val (b64_char n) = Some v /\ v < 64.
Proof.
  destruct (N.ltb_spec n 64) as [H|H].
  - exists n. split; [now apply b64_val_char | assumption].
  - exists 63. split; [|lia]. unfold b64_char.
    destruct (n <? 26) eqn:E1; [lia|]. destruct (n <? 52) eqn:E2; [lia|].
    destruct (n <? 62) eqn:E3; [lia|]. destruct (n =? 62) eqn:E4; [lia|]. reflexivity.
Qed.

Lemma b64_val_lt c v : b64_val c = Some v -> v < 64.
Proof.
  unfold b64_val.
  repeat match goal with
         | |- context [if ?b then _ else _] => destruct b eqn:?
         end; intros [= <-]; lia.
Qed.

Lemma b64_val_pad : b64_val PAD = None.
Proof. reflexivity. Qed.

Lemma b64_val_not_special c v : b64_val c = Some v -> c <> PAD /\ c <> 10 /\ c <> 13.
Proof.
  intros H. repeat split; intros ->; discriminate H.
Qed.

Lemma b64_char_not_special n : b64_char n <> PAD /\ b64_char n <> 10 /\ b64_char n <> 13.
Proof.
  destruct (b64_val_char_some n) as (v & Hv & _). eapply b64_val_not_special; eauto.
Qed.

Lemma b64_char_alphab n : b64_alphab (b64_char n) = true.
Proof.
  unfold b64_alphab. destruct (b64_val_char_some n) as (v & -> & _). reflexivity.
Qed.

Lemma pad_alphab : b64_alphab PAD = true.
Proof. reflexivity. Qed.

(* ---------- 3-step induction on lists ---------- *)

Lemma list_ind3 {A} (P : list A -> Prop) :
  P [] -> (forall a, P [a]) -> (forall a b, P [a; b]) ->
  (forall a b c t, P t -> P (a :: b :: c :: t)) ->
  forall l, P l.
Proof.
  intros H0 H1 H2 H3.
  fix IH 1. intros [|a [|b [|c t]]]; [apply H0 | apply H1 | apply H2 | apply H3, IH].
Qed.

(* ---------- the encoder's output ---------- *)

Theorem b64enc_alphabet_all : forall bs, forallb b64_alphab (b64enc bs) = true.
Proof.
  induction bs as [| a | a b | a b c t IH] using list_ind3;
    cbn [b64enc forallb]; rewrite ?b64_char_alphab, ?pad_alphab; auto.
Qed.

Theorem b64enc_alphabet : forall bs, bytesb bs = true -> forallb b64_alphab (b64enc bs) = true.
Proof. intros bs _. apply b64enc_alphabet_all. Qed.

Definition not_crlf (c : rune) : bool := negb ((c =? 10) || (c =? 13)).

Lemma b64_char_not_crlf n : not_crlf (b64_char n) = true.
Proof.
  destruct (b64_char_not_special n) as (_ & H1 & H2). unfold not_crlf.
  apply N.eqb_neq in H1. apply N.eqb_neq in H2. now rewrite H1, H2.
Qed.

Lemma b64enc_filter bs : filter not_crlf (b64enc bs) = b64enc bs.
Proof.
  induction bs as [| a | a b | a b c t IH] using list_ind3;
    cbn [b64enc filter]; rewrite ?b64_char_not_crlf; cbn [filter not_crlf N.eqb negb orb PAD];
    try rewrite IH; reflexivity.
Qed.

Lemma b64enc_length bs : length (b64enc bs) = (4 * ((length bs + 2) / 3))%nat.
Proof.
  induction bs as [| a | a b | a b c t IH] using list_ind3; try reflexivity.
  cbn [b64enc length]. rewrite IH.
  replace (S (S (S (length t))) + 2)%nat with (length t + 2 + 1 * 3)%nat by lia.
  rewrite Nat.div_add by lia. lia.
Qed.

Lemma b64enc_length_ge bs : (length bs <= length (b64enc bs))%nat.
Proof.
  induction bs as [| a | a b | a b c t IH] using list_ind3; cbn [b64enc length]; lia.
Qed.

Lemma b64enc_nil_inv bs : b64enc bs = [] -> bs = [].
Proof. destruct bs as [|a [|b [|c t]]]; cbn [b64enc]; congruence. Qed.

(* ---------- byte arithmetic ---------- *)

Lemma q1 a b : a < 256 -> b < 256 -> (a / 4) * 4 + ((a mod 4) * 16 + b / 16) / 16 = a.
Proof. lia. Qed.
Lemma q2 a b c : a < 256 -> b < 256 -> c < 256 ->
  (((a mod 4) * 16 + b / 16) mod 16) * 16 + ((b mod 16) * 4 + c / 64) / 4 = b.
Proof. lia. Qed.
Lemma q3 b c : b < 256 -> c < 256 -> (((b mod 16) * 4 + c / 64) mod 4) * 64 + c mod 64 = c.
Proof. lia. Qed.
Lemma q1' a : a < 256 -> (a / 4) * 4 + ((a mod 4) * 16) / 16 = a.
Proof. lia. Qed.
Lemma q2' a b : a < 256 -> b < 256 ->
  (((a mod 4) * 16 + b / 16) mod 16) * 16 + ((b mod 16) * 4) / 4 = b.
Proof. lia. Qed.

Lemma r1 a : a < 256 -> a / 4 < 64. Proof. lia. Qed.
Lemma r2 a b : b < 256 -> (a mod 4) * 16 + b / 16 < 64. Proof. lia. Qed.
Lemma r2' a : (a mod 4) * 16 < 64. Proof. lia. Qed.
Lemma r3 b c : c < 256 -> (b mod 16) * 4 + c / 64 < 64. Proof. lia. Qed.
Lemma r3' b : (b mod 16) * 4 < 64. Proof. lia. Qed.
Lemma r4 c : c mod 64 < 64. Proof. lia. Qed.

Lemma b64_char_pad_eqb n : (b64_char n =? PAD) = false.
Proof. apply N.eqb_neq. apply b64_char_not_special. Qed.

(* ---------- decode after encode ---------- *)

Lemma b64dec_go_enc : forall bs fuel,
  bytesb bs = true -> (length bs <= fuel)%nat -> b64dec_go fuel (b64enc bs) = Some bs.
Proof.
  induction bs as [| a | a b | a b c t IH] using list_ind3; intros fuel Hb Hf.
  - destruct fuel; reflexivity.
  - destruct fuel as [|f]; [simpl in Hf; lia|].
    cbn [bytesb forallb] in Hb. rewrite andb_true_r in Hb. apply N.ltb_lt in Hb.
    cbn [b64enc b64dec_go].
    rewrite (b64_val_char _ (r1 a Hb)), (b64_val_char _ (r2' a)).
    cbn [N.eqb PAD andb Pos.eqb]. rewrite (q1' a Hb). reflexivity.
  - destruct fuel as [|f]; [simpl in Hf; lia|].
    cbn [bytesb forallb] in Hb. rewrite andb_true_r in Hb.
    apply andb_true_iff in Hb as [Ha Hb]. apply N.ltb_lt in Ha. apply N.ltb_lt in Hb.
    cbn [b64enc b64dec_go].
    rewrite (b64_val_char _ (r1 a Ha)), (b64_val_char _ (r2 a b Hb)), (b64_val_char _ (r3' b)).
    rewrite b64_char_pad_eqb. cbn [N.eqb PAD andb Pos.eqb].
    rewrite (q1 a b Ha Hb), (q2' a b Ha Hb). reflexivity.
  - destruct fuel as [|f]; [simpl in Hf; lia|].
    cbn [bytesb forallb] in Hb.
    apply andb_true_iff in Hb as [Ha Hb]. apply andb_true_iff in Hb as [Hb Hc].
    apply andb_true_iff in Hc as [Hc Ht].
    apply N.ltb_lt in Ha. apply N.ltb_lt in Hb. apply N.ltb_lt in Hc.
    assert (Hrec : b64dec_go f (b64enc t) = Some t).
    { apply IH; [exact Ht | simpl in Hf; lia]. }
    cbn [b64enc].
    destruct (b64enc t) as [|x r] eqn:Et.
    + apply b64enc_nil_inv in Et. subst t.
      cbn [b64dec_go].
      rewrite (b64_val_char _ (r1 a Ha)), (b64_val_char _ (r2 a b Hb)),
              (b64_val_char _ (r3 b c Hc)), (b64_val_char _ (r4 c)).
      rewrite !b64_char_pad_eqb. cbn [andb].
      rewrite (q1 a b Ha Hb), (q2 a b c Ha Hb Hc), (q3 b c Hb Hc). reflexivity.
    + cbn [b64dec_go].
      rewrite (b64_val_char _ (r1 a Ha)), (b64_val_char _ (r2 a b Hb)),
              (b64_val_char _ (r3 b c Hc)), (b64_val_char _ (r4 c)).
      rewrite Hrec.
      rewrite (q1 a b Ha Hb), (q2 a b c Ha Hb Hc), (q3 b c Hb Hc). reflexivity.
Qed.

Theorem b64dec_b64enc : forall bs, bytesb bs = true -> b64dec (b64enc bs) = Some bs.
Proof.
  intros bs Hb. unfold b64dec. fold not_crlf. rewrite b64enc_filter.
  apply b64dec_go_enc; [assumption | apply b64enc_length_ge].
Qed.

Theorem b64enc_inj : forall a b, bytesb a = true -> bytesb b = true -> b64enc a = b64enc b -> a = b.
Proof.
  intros a b Ha Hb H. pose proof (b64dec_b64enc a Ha) as E. rewrite H, (b64dec_b64enc b Hb) in E.
  congruence.
Qed.

(* ---------- the decoder only yields bytes ---------- *)

Lemma d1 v1 v2 : v1 < 64 -> v2 < 64 -> v1 * 4 + v2 / 16 < 256. Proof. lia. Qed.
Lemma d2 v2 v3 : v3 < 64 -> (v2 mod 16) * 16 + v3 / 4 < 256. Proof. lia. Qed.
Lemma d3 v3 v4 : v4 < 64 -> (v3 mod 4) * 64 + v4 < 256. Proof. lia. Qed.

Lemma b64dec_go_bytes : forall fuel s bs, b64dec_go fuel s = Some bs -> bytesb bs = true.
Proof.
  induction fuel as [|f IH]; intros s bs H.
  - destruct s; [|discriminate]. injection H as <-. reflexivity.
  - destruct s as [|c1 [|c2 [|c3 [|c4 t]]]]; cbn [b64dec_go] in H; try discriminate.
    + injection H as <-. reflexivity.
    + destruct (b64_val c1) as [v1|] eqn:E1; [|destruct t; discriminate].
      destruct (b64_val c2) as [v2|] eqn:E2; [|destruct t; discriminate].
      pose proof (b64_val_lt _ _ E1) as L1. pose proof (b64_val_lt _ _ E2) as L2.
      destruct t as [|c5 t].
      * destruct ((c3 =? PAD) && (c4 =? PAD)).
        { injection H as <-. cbn [bytesb forallb]. rewrite andb_true_r. apply N.ltb_lt. now apply d1. }
        destruct (b64_val c3) as [v3|] eqn:E3; [|discriminate].
        pose proof (b64_val_lt _ _ E3) as L3.
        destruct (c4 =? PAD).
        { injection H as <-. cbn [bytesb forallb]. rewrite andb_true_r.
          apply andb_true_iff; split; apply N.ltb_lt; [now apply d1 | now apply d2]. }
        destruct (b64_val c4) as [v4|] eqn:E4; [|discriminate].
        pose proof (b64_val_lt _ _ E4) as L4.
        injection H as <-. cbn [bytesb forallb]. rewrite andb_true_r.
        repeat (apply andb_true_iff; split); apply N.ltb_lt;
          [now apply d1 | now apply d2 | now apply d3].
      * destruct (b64_val c3) as [v3|] eqn:E3; [|discriminate].
        destruct (b64_val c4) as [v4|] eqn:E4; [|discriminate].
        pose proof (b64_val_lt _ _ E3) as L3. pose proof (b64_val_lt _ _ E4) as L4.
        destruct (b64dec_go f (c5 :: t)) as [r|] eqn:Er; [|discriminate].
        injection H as <-. apply IH in Er. cbn [bytesb forallb]. fold (bytesb r). rewrite Er.
        rewrite andb_true_r.
        repeat (apply andb_true_iff; split); apply N.ltb_lt;
          [now apply d1 | now apply d2 | now apply d3].
Qed.

Theorem b64dec_bytes : forall s bs, b64dec s = Some bs -> bytesb bs = true.
Proof. intros s bs H. unfold b64dec in H. eapply b64dec_go_bytes; eauto. Qed.

Print Assumptions b64dec_b64enc.
Print Assumptions b64enc_alphabet.
Print Assumptions b64dec_bytes.
