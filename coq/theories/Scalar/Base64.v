(* Base64.v — encoding/base64 StdEncoding (RFC 4648, '=' padding) on byte lists.
   Decoding follows Go's decoder: '\r' and '\n' are ignored, padding is mandatory and
   only allowed at the end, trailing bits are not checked (non-strict mode). *)
From Ygot Require Import Base.Base.

Definition b64_char (n : N) : rune :=
  if n <? 26 then 65 + n            (* A-Z *)
  else if n <? 52 then 97 + (n - 26) (* a-z *)
  else if n <? 62 then 48 + (n - 52) (* 0-9 *)
  else if n =? 62 then 43            (* + *)
  else 47.                           (* / *)

Definition b64_val (c : rune) : option N :=
  if (65 <=? c) && (c <=? 90) then Some (c - 65)
  else if (97 <=? c) && (c <=? 122) then Some (c - 97 + 26)
  else if (48 <=? c) && (c <=? 57) then Some (c - 48 + 52)
  else if c =? 43 then Some 62
  else if c =? 47 then Some 63
  else None.

Definition PAD : rune := 61.

Fixpoint b64enc (bs : list N) : str :=
  match bs with
  | [] => []
  | [a] => [b64_char (a / 4); b64_char ((a mod 4) * 16); PAD; PAD]
  | [a; b] => [b64_char (a / 4); b64_char ((a mod 4) * 16 + b / 16); b64_char ((b mod 16) * 4); PAD]
  | a :: b :: c :: t =>
      b64_char (a / 4) :: b64_char ((a mod 4) * 16 + b / 16) ::
      b64_char ((b mod 16) * 4 + c / 64) :: b64_char (c mod 64) :: b64enc t
  end.

(* decode quanta of 4 characters; fuel = length of the input *)
Fixpoint b64dec_go (fuel : nat) (s : str) : option (list N) :=
  match fuel with
  | O => match s with [] => Some [] | _ => None end
  | S f =>
      match s with
      | [] => Some []
      | [c1; c2; p1; p2] =>
          match b64_val c1, b64_val c2 with
          | Some v1, Some v2 =>
              if (p1 =? PAD) && (p2 =? PAD) then Some [v1 * 4 + v2 / 16]
              else match b64_val p1 with
                   | Some v3 =>
                       if p2 =? PAD then Some [v1 * 4 + v2 / 16; (v2 mod 16) * 16 + v3 / 4]
                       else match b64_val p2 with
                            | Some v4 => Some [v1 * 4 + v2 / 16; (v2 mod 16) * 16 + v3 / 4; (v3 mod 4) * 64 + v4]
                            | None => None
                            end
                   | None => None
                   end
          | _, _ => None
          end
      | c1 :: c2 :: c3 :: c4 :: t =>
          match b64_val c1, b64_val c2, b64_val c3, b64_val c4 with
          | Some v1, Some v2, Some v3, Some v4 =>
              match b64dec_go f t with
              | Some r => Some ((v1 * 4 + v2 / 16) :: ((v2 mod 16) * 16 + v3 / 4) :: ((v3 mod 4) * 64 + v4) :: r)
              | None => None
              end
          | _, _, _, _ => None
          end
      | _ => None
      end
  end.

Definition b64dec (s : str) : option (list N) :=
  let s' := filter (fun c => negb ((c =? 10) || (c =? 13))) s in
  b64dec_go (length s') s'.

Definition bytesb (bs : list N) : bool := forallb (fun b => b <? 256) bs.
