(* EnumTable.v — enumeration / identityref name tables (C17).
   Definitions only.  Transcribed from
     ygot/struct_validation_map.go : enumFieldToString, EnumName, EnumLogString
     ygot/render.go                : the callers of enumFieldToString (leaf field, union leaf,
                                     leaf-list element, KeyValueAsString, EncodeTypedValue)
     ytypes/util_types.go          : castToEnumValue / StringToType (= Codec.enum_cast)
     ygen/genir.go, gogen/goenums.go : numbering of the generated ΛEnum tables
   The table type (enumval, enum_env, enum_by_num) is Tree.Tree's; enc_enum / enum_cast /
   strip_mod are Tree.Codec's. *)
From Ygot Require Import Tree.Tree Tree.Codec.

(* ---------- rendering ---------- *)

(* the text of a defined value: name, "module:name" for identities when requested *)
Definition enum_text (pmi : bool) (e : enumval) : str :=
  if pmi && negb (nil_b (ev_mod e)) then ev_mod e ++ COLON :: ev_name e else ev_name e.

(* enumFieldToString(field, prependModuleNameIref) = (name, set, err).
   The UNSET test comes first: value 0 is reported "not set" whatever the table says (even if
   the type is unknown or the table defines 0); then the type must be known to ΛMap, then the
   value must be in its table. *)
Definition enum_field_to_string (env : enum_env) (pmi : bool) (ty : str) (n : Z) : result (str * bool) :=
  if (n =? 0)%Z then Ok ([], false)
  else match assoc ty env with
       | None => Err
       | Some t => match enum_by_num t n with
                   | None => Err
                   | Some e => Ok (enum_text pmi e, true)
                   end
       end.

(* callers that honour the `set` result: a struct field of enum type (structJSON's Int64 arm,
   findUpdatedLeaves' Int64 arm) and a union holding an enum (resolveUnionVal).
   Ok None = the leaf is skipped (absent from the output). *)
Definition enum_leaf (env : enum_env) (pmi : bool) (ty : str) (n : Z) : result (option str) :=
  match enum_field_to_string env pmi ty n with
  | Ok (s, true) => Ok (Some s)
  | Ok (_, false) => Ok None
  | Err => Err
  | Panic => Panic
  end.

(* callers that drop the `set` result: EnumName (hence EncodeTypedValue's GoEnum arm, i.e. a
   union member holding an enum in gNMI notifications), KeyValueAsString, the element loop of
   an enum leaf-list (jsonSlice / leaflistToSlice).  UNSET comes out as the empty string. *)
Definition enum_elem (env : enum_env) (pmi : bool) (ty : str) (n : Z) : result str :=
  match enum_field_to_string env pmi ty n with
  | Ok (s, _) => Ok s
  | Err => Err
  | Panic => Panic
  end.

Definition enum_name (env : enum_env) (ty : str) (n : Z) : result str := enum_elem env false ty n.

(* an enum leaf-list: leaflistToSlice / jsonSlice loop over the elements with enum_elem; the
   first error aborts *)
Definition enum_slice (env : enum_env) (pmi : bool) (ty : str) (ns : list Z) : result (list str) :=
  mapM (enum_elem env pmi ty) ns.

(* a union leaf holding an enum value in TogNMINotifications: the interface value goes to
   EncodeTypedValue.  Simple unions: the value is the enum itself, the GoEnum arm calls
   EnumName: always a string_val, "" for UNSET *)
Definition enum_union_gnmi_simple (env : enum_env) (ty : str) (n : Z) : result (option str) :=
  bind (enum_name env ty n) (fun s => Ok (Some s)).
(* the same with wrapper unions (pointer to a generated Parent_Leaf_Union_E_T struct): EncodeTypedValue's struct-pointer arm
   calls unwrapUnionInterfaceValue -> resolveUnionVal, which honours `set` and returns nil for
   UNSET; the next statement, reflect.ValueOf(nil).Type(), panics *)
Definition enum_union_gnmi_wrapper (env : enum_env) (ty : str) (n : Z) : result (option str) :=
  match enum_leaf env false ty n with
  | Ok (Some s) => Ok (Some s)
  | Ok None => Panic
  | Err => Err
  | Panic => Panic
  end.
Definition enum_union_gnmi (wrapper : bool) (env : enum_env) (ty : str) (n : Z) : result (option str) :=
  if wrapper then enum_union_gnmi_wrapper env ty n else enum_union_gnmi_simple env ty n.

(* EnumLogString(e, val, typeName): plain map lookup, no UNSET test; None stands for the
   "out-of-range <type> enum value: <val>" message *)
Definition enum_log_string (env : enum_env) (ty : str) (n : Z) : option str :=
  match enum_by_num (enum_table env ty) n with Some e => Some (ev_name e) | None => None end.

(* ---------- parsing ---------- *)

(* ytypes.StringToType on an enum type / enumStringToValue: castToEnumValue, nil = error *)
Definition enum_parse (t : list enumval) (s : str) : result Z :=
  match enum_cast t s with Some e => Ok (ev_num e) | None => Err end.

(* ---------- well-formed tables ---------- *)

Definition no_colon (s : str) : bool := forallb (fun c => negb (c =? COLON)) s.

(* a YANG name as the table needs it: non-empty, no ':' *)
Definition name_okb (s : str) : bool := negb (nil_b s) && no_colon s.

Fixpoint nums_distinctb (t : list enumval) : bool :=
  match t with
  | [] => true
  | e :: r => negb (existsb (fun e' => (ev_num e =? ev_num e')%Z) r) && nums_distinctb r
  end.

Fixpoint names_distinctb (t : list enumval) : bool :=
  match t with
  | [] => true
  | e :: r => negb (existsb (fun e' => str_eqb (ev_name e) (ev_name e')) r) && names_distinctb r
  end.

Definition zero_freeb (t : list enumval) : bool := negb (existsb (fun e => (ev_num e =? 0)%Z) t).

Definition names_okb (t : list enumval) : bool :=
  forallb (fun e => name_okb (ev_name e) && no_colon (ev_mod e)) t.

(* the four checks of the regenerated-table obligation *)
Definition tbl_okb_full (t : list enumval) : bool :=
  nums_distinctb t && names_distinctb t && zero_freeb t && names_okb t.

(* which of the four fail (for the diagnostic print of the regenerated file) *)
Definition tbl_diag (t : list enumval) : bool * bool * bool * bool :=
  (nums_distinctb t, names_distinctb t, zero_freeb t, names_okb t).

(* ---------- the generator's numbering (ygen/genir.go + gogen/goenums.go) ---------- *)

(* enumeration (simple, typedef, union member): the YANG (name, value) pairs in ascending value
   order get Go value = YANG value + 1, no defining module *)
Definition gen_enum_table (vals : list (str * Z)) : list enumval :=
  map (fun p => {| ev_num := snd p + 1; ev_name := fst p; ev_mod := [] |}) vals.

(* identityref: the identities derived from the base, sorted by name (sort.Strings), get
   1, 2, 3, ...; the module is looked up BY NAME (valLookup[v.Name]), so of two identities with
   the same name the later one in IdentityBase.Values supplies the module of both *)
Fixpoint ins_name (x : str * str) (l : list (str * str)) : list (str * str) :=
  match l with
  | [] => [x]
  | y :: r => if str_ltb (fst y) (fst x) || str_eqb (fst y) (fst x) then y :: ins_name x r else x :: l
  end.
Fixpoint sort_names (l : list (str * str)) : list (str * str) :=
  match l with [] => [] | x :: r => ins_name x (sort_names r) end.
Fixpoint last_mod (n : str) (l : list (str * str)) (d : str) : str :=
  match l with
  | [] => d
  | (n', m) :: r => last_mod n r (if str_eqb n n' then m else d)
  end.
Fixpoint number_from (k : Z) (l : list (str * str)) : list enumval :=
  match l with
  | [] => []
  | (n, m) :: r => {| ev_num := k; ev_name := n; ev_mod := m |} :: number_from (k + 1) r
  end.
(* ids: (identity name, defining module) in IdentityBase.Values order *)
Definition gen_identity_table (ids : list (str * str)) : list enumval :=
  number_from 1 (map (fun p => (fst p, last_mod (fst p) ids (snd p))) (sort_names ids)).

(* ---------- declarative well-formedness (what tbl_okb_full decides) ---------- *)

Definition tbl_wf (t : list enumval) : Prop :=
  NoDup (map ev_num t) /\
  NoDup (map ev_name t) /\
  ~ In 0%Z (map ev_num t) /\
  Forall (fun e => ev_name e <> [] /\ ~ In COLON (ev_name e) /\ ~ In COLON (ev_mod e)) t.

(* the C17 statement about one table *)
Definition table_statement (t : list enumval) : Prop :=
  NoDup (map ev_name t) /\ NoDup (map ev_num t) /\ enum_by_num t 0 = None /\
  (forall n e, enum_by_num t n = Some e -> n <> 0%Z ->
     enum_parse t (ev_name e) = Ok n /\ enum_parse t (ev_mod e ++ COLON :: ev_name e) = Ok n) /\
  (forall s n, enum_parse t s = Ok n -> exists e, enum_by_num t n = Some e /\ ev_name e = strip_mod s).

(* a YANG enumeration statement as the generator needs it: distinct non-empty names without
   ':', distinct values, and no value -1 (it would be numbered 0 = UNSET) *)
Definition yang_enum_wf (vals : list (str * Z)) : Prop :=
  NoDup (map fst vals) /\ NoDup (map snd vals) /\ ~ In (-1)%Z (map snd vals) /\
  Forall (fun p => fst p <> [] /\ ~ In COLON (fst p)) vals.

(* the identities derived from one base: names distinct ACROSS modules *)
Definition yang_identities_wf (ids : list (str * str)) : Prop :=
  NoDup (map fst ids) /\
  Forall (fun p => fst p <> [] /\ ~ In COLON (fst p) /\ ~ In COLON (snd p)) ids.

(* ---------- diagnostics for the regenerated file ---------- *)

(* index and failing checks of every table that is not well formed *)
Fixpoint bad_tables_from (i : nat) (ts : list (str * str * list enumval)) : list (nat * (bool * bool * bool * bool)) :=
  match ts with
  | [] => []
  | t :: r => if tbl_okb_full (snd t) then bad_tables_from (S i) r
              else (i, tbl_diag (snd t)) :: bad_tables_from (S i) r
  end.
Definition bad_tables := bad_tables_from 0.
