(* Restrict.v — model of ygot's exported restriction validators (ytypes/int_type.go,
   decimal_type.go, string_type.go, binary_type.go, util_schema.go).  Definitions only.

   A yang.YangType is represented by the four fields the validators read: Range, Length,
   Pattern, POSIXPattern.  Strings are code-point lists (exact for valid UTF-8), binary values
   are byte lists.  ValidateDecimalRestrictions converts its float64 with yang.FromFloat; the
   model takes the resulting Number (floating point is not modelled; the harness supplies the
   Number that the real FromFloat returned). *)
From Ygot Require Import Base.Base Scalar.Number Scalar.Regex Scalar.FixRegexp.

Record yrange := YR { rmin : number; rmax : number }.       (* yang.YRange *)

Record ytype_r := YT {
  t_range : list yrange;       (* YangType.Range *)
  t_length : list yrange;      (* YangType.Length *)
  t_pattern : list str;        (* YangType.Pattern *)
  t_posix : list str           (* YangType.POSIXPattern *)
}.

(* func isInRange(yr yang.YRange, val yang.Number) bool *)
Definition in_range (yr : yrange) (v : number) : bool :=
  (less v (rmax yr) || equal v (rmax yr)) && (less (rmin yr) v || equal (rmin yr) v).

(* func isInRanges(yrs yang.YangRange, val yang.Number) bool *)
Definition in_ranges (yrs : list yrange) (v : number) : bool :=
  match yrs with
  | [] => true
  | _ => existsb (fun yr => in_range yr v) yrs
  end.

(* func lengthOk(yrs yang.YangRange, val uint64) bool *)
Definition length_ok (yrs : list yrange) (n : N) : bool := in_ranges yrs (from_uint n).

Definition verdict (b : bool) : result unit := if b then Ok tt else Err.

(* func ValidateIntRestrictions(schemaType *yang.YangType, intVal int64) error *)
Definition validate_int (t : ytype_r) (z : Z) : result unit :=
  verdict (in_ranges (t_range t) (from_int z)).
(* func ValidateUintRestrictions(schemaType *yang.YangType, uintVal uint64) error *)
Definition validate_uint (t : ytype_r) (n : N) : result unit :=
  verdict (in_ranges (t_range t) (from_uint n)).
(* func ValidateDecimalRestrictions(schemaType *yang.YangType, floatVal float64) error,
   with v = yang.FromFloat(floatVal) *)
Definition validate_decimal (t : ytype_r) (v : number) : result unit :=
  verdict (in_ranges (t_range t) v).
(* func ValidateBinaryRestrictions(schemaType *yang.YangType, binaryVal []byte) error *)
Definition validate_binary (t : ytype_r) (bytes : list N) : result unit :=
  verdict (length_ok (t_length t) (N.of_nat (length bytes))).

(* the pattern loop of ValidateStringRestrictions: compile (cached) and MatchString, first
   failure wins; a pattern outside the modelled regex subset gives Panic so that it can never
   be mistaken for a verdict *)
Fixpoint match_all (px : bool) (ps : list str) (s : str) : result unit :=
  match ps with
  | [] => Ok tt
  | p :: rest =>
      match parse_re px p with
      | POk r => if search_b r s then match_all px rest s else Err
      | PErr => Err
      | PUnsup => Panic
      end
  end.

(* func ValidateStringRestrictions(schemaType *yang.YangType, stringVal string) error;
   utf8.RuneCountInString = number of code points *)
Definition validate_string (t : ytype_r) (s : str) : result unit :=
  if length_ok (t_length t) (N.of_nat (length s)) then
    let sp := sanitized_pattern (t_pattern t) (t_posix t) in
    match_all (snd sp) (fst sp) s
  else Err.

(* ---------- specification side ---------- *)

Definition wf_range (r : yrange) : bool := wf_num (rmin r) && wf_num (rmax r).
(* integer ranges as they come from `range "lo..hi"` on an integer type *)
Definition int_range (lo hi : Z) : yrange := YR (from_int lo) (from_int hi).
Definition uint_range (lo hi : N) : yrange := YR (from_uint lo) (from_uint hi).
Definition only_range (rs : list yrange) : ytype_r := YT rs [] [] [].
Definition only_length (ls : list yrange) : ytype_r := YT [] ls [] [].
Definition only_pattern (p : str) : ytype_r := YT [] [] [p] [].
