(* ProtoWF.v — abstract syntax of the .proto text that protogen's templates emit
   (protoMessageTemplate, protoEnumTemplate in protogen/protogen.go) and the executable
   well-formedness check. Definitions only; proofs are in ProtoWFProofs.v.

   A message is its name, its fields (name, number; the members of a oneof are fields of the
   enclosing message, as in protobuf), the names of its oneofs, its nested messages and its nested
   enums. Identifiers are rune lists (Base.str); numbers are Z because enum numbers may be negative. *)
From Ygot Require Import Base.Base.

Record penum := { pe_name : str; pe_values : list (str * Z) }.

Inductive pmsg :=
| PMsg (name : str) (fields : list (str * Z)) (oneofs : list str) (nested : list pmsg) (enums : list penum).

Definition pm_name (m : pmsg) : str := match m with PMsg n _ _ _ _ => n end.
Definition pm_fields (m : pmsg) := match m with PMsg _ f _ _ _ => f end.
Definition pm_oneofs (m : pmsg) := match m with PMsg _ _ o _ _ => o end.
Definition pm_nested (m : pmsg) := match m with PMsg _ _ _ n _ => n end.
Definition pm_enums (m : pmsg) := match m with PMsg _ _ _ _ e => e end.

(* ---- duplicate-freeness, executable ---- *)
Fixpoint str_inb (x : str) (l : list str) : bool :=
  match l with [] => false | y :: t => str_eqb x y || str_inb x t end.
Fixpoint str_nodupb (l : list str) : bool :=
  match l with [] => true | x :: t => negb (str_inb x t) && str_nodupb t end.
Fixpoint z_inb (x : Z) (l : list Z) : bool :=
  match l with [] => false | y :: t => Z.eqb x y || z_inb x t end.
Fixpoint z_nodupb (l : list Z) : bool :=
  match l with [] => true | x :: t => negb (z_inb x t) && z_nodupb t end.

(* ---- field numbers: 1 .. 2^29-1 outside 19000 .. 19999 ---- *)
Definition max_field_number : Z := 536870911.
Definition field_number_legalb (v : Z) : bool :=
  (1 <=? v)%Z && (v <=? max_field_number)%Z && negb ((19000 <=? v)%Z && (v <=? 19999)%Z).

(* ---- enums: value names distinct, numbers distinct int32s, and (proto3) the first value is 0 ---- *)
Definition int32b (v : Z) : bool := (-2147483648 <=? v)%Z && (v <=? 2147483647)%Z.
Definition first_zerob (vs : list (str * Z)) : bool :=
  match vs with [] => false | (_, n) :: _ => (n =? 0)%Z end.
Definition enum_wf_b (e : penum) : bool :=
  str_nodupb (map fst (pe_values e)) && z_nodupb (map snd (pe_values e)) && first_zerob (pe_values e)
  && forallb (fun v => int32b (snd v)) (pe_values e).

(* the symbols an enum declares in its enclosing scope: its name and (C++ scoping rule of
   protobuf) the names of its values *)
Definition enum_symbols (e : penum) : list str := pe_name e :: map fst (pe_values e).

(* all names declared directly in the scope of a message *)
Definition msg_symbols (m : pmsg) : list str :=
  map fst (pm_fields m) ++ pm_oneofs m ++ map pm_name (pm_nested m) ++ concat (map enum_symbols (pm_enums m)).

Fixpoint msg_wf_b (m : pmsg) : bool :=
  match m with
  | PMsg _ fields oneofs nested enums =>
      str_nodupb (map fst fields ++ oneofs ++ map pm_name nested ++ concat (map enum_symbols enums))
      && z_nodupb (map snd fields)
      && forallb (fun f => field_number_legalb (snd f)) fields
      && forallb enum_wf_b enums
      && forallb msg_wf_b nested
  end.

(* a file: top-level messages and enums of one package *)
Record pfile := { pf_msgs : list pmsg; pf_enums : list penum }.
Definition file_symbols (f : pfile) : list str :=
  map pm_name (pf_msgs f) ++ concat (map enum_symbols (pf_enums f)).
Definition file_wf_b (f : pfile) : bool :=
  str_nodupb (file_symbols f) && forallb enum_wf_b (pf_enums f) && forallb msg_wf_b (pf_msgs f).

(* ---- the declarative statement ---- *)
Definition field_number_legal (v : Z) : Prop :=
  (1 <= v <= max_field_number)%Z /\ ~ (19000 <= v <= 19999)%Z.

Definition wf_enum (e : penum) : Prop :=
  NoDup (map fst (pe_values e)) /\ NoDup (map snd (pe_values e)) /\
  (exists n rest, pe_values e = (n, 0%Z) :: rest) /\
  Forall (fun v => (-2147483648 <= snd v <= 2147483647)%Z) (pe_values e).

Inductive wf_msg : pmsg -> Prop :=
| WfMsg : forall name fields oneofs nested enums,
    NoDup (msg_symbols (PMsg name fields oneofs nested enums)) ->
    NoDup (map snd fields) ->
    Forall (fun f => field_number_legal (snd f)) fields ->
    Forall wf_enum enums ->
    Forall wf_msg nested ->
    wf_msg (PMsg name fields oneofs nested enums).

Definition wf_file (f : pfile) : Prop :=
  NoDup (file_symbols f) /\ Forall wf_enum (pf_enums f) /\ Forall wf_msg (pf_msgs f).
