(* The executable well-formedness check of ProtoWF.v decides its declarative statement. *)
From Ygot Require Import Base.Base Gen.ProtoWF.

Lemma pw_str_eqb_eq : forall a b, str_eqb a b = true <-> a = b.
Proof.
  induction a as [| x a IH]; destruct b as [| y b]; simpl; split; intros H; try discriminate; try reflexivity.
  - apply andb_true_iff in H. destruct H as [H1 H2]. apply N.eqb_eq in H1. apply IH in H2. subst. reflexivity.
  - inversion H; subst. rewrite N.eqb_refl. simpl. apply IH. reflexivity.
Qed.

Lemma str_inb_spec : forall x l, str_inb x l = true <-> In x l.
Proof.
  intros x l. induction l as [| y t IH]; simpl; [split; [discriminate | tauto] |].
  rewrite orb_true_iff, IH, pw_str_eqb_eq. split; intros [H | H]; auto.
Qed.

Lemma str_nodupb_spec : forall l, str_nodupb l = true <-> NoDup l.
Proof.
  induction l as [| x t IH]; simpl; [split; [constructor | reflexivity] |].
  rewrite andb_true_iff, negb_true_iff, IH. split.
  - intros [H1 H2]. constructor; [| exact H2]. intros HI. apply str_inb_spec in HI. congruence.
  - intros H. inversion H; subst. split; [| assumption].
    destruct (str_inb x t) eqn:E; [apply str_inb_spec in E; contradiction | reflexivity].
Qed.

Lemma z_inb_spec : forall x l, z_inb x l = true <-> In x l.
Proof.
  intros x l. induction l as [| y t IH]; simpl; [split; [discriminate | tauto] |].
  rewrite orb_true_iff, IH, Z.eqb_eq. split; intros [H | H]; auto.
Qed.

Lemma z_nodupb_spec : forall l, z_nodupb l = true <-> NoDup l.
Proof.
  induction l as [| x t IH]; simpl; [split; [constructor | reflexivity] |].
  rewrite andb_true_iff, negb_true_iff, IH. split.
  - intros [H1 H2]. constructor; [| exact H2]. intros HI. apply z_inb_spec in HI. congruence.
  - intros H. inversion H; subst. split; [| assumption].
    destruct (z_inb x t) eqn:E; [apply z_inb_spec in E; contradiction | reflexivity].
Qed.

Lemma field_number_legalb_spec : forall v, field_number_legalb v = true <-> field_number_legal v.
Proof.
  intros v. unfold field_number_legalb, field_number_legal.
  rewrite !andb_true_iff, negb_true_iff, andb_false_iff, !Z.leb_le, !Z.leb_gt. lia.
Qed.

Lemma first_zerob_spec : forall vs, first_zerob vs = true <-> exists n rest, vs = (n, 0%Z) :: rest.
Proof.
  intros [| [n z] rest]; simpl.
  - split; [discriminate | intros (n & r & H); discriminate].
  - rewrite Z.eqb_eq. split.
    + intros ->. exists n, rest. reflexivity.
    + intros (n' & r & H). inversion H. reflexivity.
Qed.

Lemma forallb_Forall_iff : forall {A} (f : A -> bool) (P : A -> Prop) l,
  (forall x, In x l -> (f x = true <-> P x)) -> (forallb f l = true <-> Forall P l).
Proof.
  intros A f P l. induction l as [| x t IH]; intros H; simpl.
  - split; [constructor | reflexivity].
  - rewrite andb_true_iff, IH, (H x (or_introl eq_refl)).
    + split; [intros [H1 H2]; constructor; assumption | intros HF; inversion HF; auto].
    + intros y Hy. apply H. right. exact Hy.
Qed.

Lemma enum_wf_b_spec : forall e, enum_wf_b e = true <-> wf_enum e.
Proof.
  intros e. unfold enum_wf_b, wf_enum.
  rewrite !andb_true_iff, str_nodupb_spec, z_nodupb_spec, first_zerob_spec.
  rewrite (forallb_Forall_iff _ (fun v => (-2147483648 <= snd v <= 2147483647)%Z) (pe_values e)).
  - tauto.
  - intros x _. unfold int32b. rewrite andb_true_iff, !Z.leb_le. tauto.
Qed.

(* induction on messages through the nested list *)
Fixpoint pmsg_size (m : pmsg) : nat :=
  match m with PMsg _ _ _ nested _ => S (fold_right (fun x acc => (pmsg_size x + acc)%nat) 0%nat nested) end.

Lemma pmsg_size_in : forall x l, In x l -> (pmsg_size x <= fold_right (fun x acc => (pmsg_size x + acc)%nat) 0%nat l)%nat.
Proof.
  intros x l. induction l as [| y t IH]; simpl; [tauto |]. intros [-> | H]; [lia | apply IH in H; lia].
Qed.

Lemma pmsg_nested_ind : forall (P : pmsg -> Prop),
  (forall name fields oneofs nested enums, (forall x, In x nested -> P x) -> P (PMsg name fields oneofs nested enums)) ->
  forall m, P m.
Proof.
  intros P H m.
  assert (G : forall n m, (pmsg_size m <= n)%nat -> P m).
  { induction n as [| n IH]; intros [name fields oneofs nested enums] Hs; simpl in Hs; [lia |].
    apply H. intros x Hx. apply IH. apply pmsg_size_in in Hx. lia. }
  apply (G (pmsg_size m)). lia.
Qed.

Theorem msg_wf_b_spec : forall m, msg_wf_b m = true <-> wf_msg m.
Proof.
  induction m as [name fields oneofs nested enums IH] using pmsg_nested_ind.
  simpl. rewrite !andb_true_iff, str_nodupb_spec, z_nodupb_spec.
  rewrite (forallb_Forall_iff _ (fun f => field_number_legal (snd f)) fields)
    by (intros x _; apply field_number_legalb_spec).
  rewrite (forallb_Forall_iff _ wf_enum enums) by (intros x _; apply enum_wf_b_spec).
  rewrite (forallb_Forall_iff _ wf_msg nested) by exact IH.
  split.
  - intros [[[[H1 H2] H3] H4] H5]. constructor; assumption.
  - intros H. inversion H; subst. unfold msg_symbols in *. simpl in *. tauto.
Qed.

Theorem file_wf_b_spec : forall f, file_wf_b f = true <-> wf_file f.
Proof.
  intros f. unfold file_wf_b, wf_file.
  rewrite !andb_true_iff, str_nodupb_spec.
  rewrite (forallb_Forall_iff _ wf_enum (pf_enums f)) by (intros x _; apply enum_wf_b_spec).
  rewrite (forallb_Forall_iff _ wf_msg (pf_msgs f)) by (intros x _; apply msg_wf_b_spec).
  tauto.
Qed.

Lemma nodup_app_l : forall {A} (a b : list A), NoDup (a ++ b) -> NoDup a.
Proof.
  intros A a b. induction a as [| x a IH]; simpl; intros H; [constructor |].
  inversion H; subst. constructor; [| apply IH; assumption].
  intros HI. apply H2. apply in_or_app. left. exact HI.
Qed.

(* consequences in the words of the property *)
Theorem wf_msg_fields : forall m, wf_msg m ->
  NoDup (map fst (pm_fields m)) /\ NoDup (map snd (pm_fields m)) /\
  Forall (fun f => field_number_legal (snd f)) (pm_fields m) /\
  Forall wf_enum (pm_enums m) /\ Forall wf_msg (pm_nested m).
Proof.
  intros m H. inversion H; subst. simpl. repeat split; try assumption.
  unfold msg_symbols in H0. simpl in H0. apply nodup_app_l in H0. exact H0.
Qed.
