(* GoMap.v — a Go map[K]V as an association list, shared by the models of the generated list
   helpers (Gen/OrderedMap.v, Gen/KeyedMap.v).  Definitions only; lemmas are in GoMapProofs.v.
     m[k]          gm_get  (first binding wins; None = "not present", the `_, ok :=` form)
     delete(m, k)  gm_del  (removes every binding of k)
     m[k] = v      gm_set  (delete, then bind)
   `keq` stands for Go's == on the key type (a comparable scalar, a key struct, or — with
   wrapper unions — an interface holding a pointer, compared by address). *)
From Ygot Require Import Base.Base.

Section GoMap.
  Variables K V : Type.
  Variable keq : K -> K -> bool.

  Fixpoint gm_get (k : K) (m : list (K * V)) : option V :=
    match m with
    | [] => None
    | (k', v) :: t => if keq k k' then Some v else gm_get k t
    end.

  Fixpoint gm_del (k : K) (m : list (K * V)) : list (K * V) :=
    match m with
    | [] => []
    | (k', v) :: t => if keq k k' then gm_del k t else (k', v) :: gm_del k t
    end.

  Definition gm_set (k : K) (v : V) (m : list (K * V)) : list (K * V) := (k, v) :: gm_del k m.

  Definition gm_mem (k : K) (m : list (K * V)) : bool :=
    match gm_get k m with Some _ => true | None => false end.

  (* membership of a key in a slice of keys, by Go == *)
  Definition key_in (k : K) (l : list K) : bool := existsb (keq k) l.
End GoMap.

Arguments gm_get {K V} keq k m.
Arguments gm_del {K V} keq k m.
Arguments gm_set {K V} keq k v m.
Arguments gm_mem {K V} keq k m.
Arguments key_in {K} keq k l.
