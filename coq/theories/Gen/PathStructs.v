(* PathStructs.v — C29: generated path structs resolve to data-tree paths.
   Transcription of ygot/path_types.go: NodePath{relSchemaPath, keys, p}, NodePath.relPath,
   ResolvePath, and of ygot.KeyValueAsString (ygot/render.go) for the key value kinds the path API
   stores.  A chain of path structs from the device root to a node is the list of its NodePaths,
   root side first.  Definitions only; proofs are in PathStructsProofs.v. *)
From Ygot Require Import Base.Base Path.PathString Tree.Tree Scalar.Dec Scalar.Base64.

Record nodepath := MkNP {
  np_rel : list str;                 (* relSchemaPath *)
  np_keys : list (str * scalar)      (* keys (a Go map: sorted by name); a wildcard is the string "*" *)
}.
Definition chain := list nodepath.   (* first element: child of the root; last: the node itself *)

Definition s_true : str := [116; 114; 117; 101].
Definition s_false : str := [102; 97; 108; 115; 101].
Definition s_star : str := [42].
Definition wildcard : scalar := VStr s_star.

(* ygot.KeyValueAsString.  kfmt: fmt.Sprintf("%g", float64) supplied by the harness for the floats
   of the run (float oracle).  An enumerated value is looked up in the ΛEnum table of its type:
   0 (UNSET) renders as "" (enumFieldToString's `set` result is dropped), an undefined value is an
   error. *)
Definition key_to_string (kfmt : N -> str) (env : enum_env) (v : scalar) : result str :=
  match v with
  | VStr s => Ok s
  | VInt _ z => Ok (dec_of_Z z)
  | VBool b => Ok (if b then s_true else s_false)
  | VEmpty => Ok s_true                      (* YANGEmpty is a bool kind *)
  | VDec bits => Ok (kfmt bits)
  | VBin bs => Ok (b64enc bs)
  | VEnum ty n =>
      if (n =? 0)%Z then Ok []
      else match enum_by_num (enum_table env ty) n with
           | Some e => Ok (ev_name e)
           | None => Err
           end
  end.

Definition render_key (kfmt : N -> str) (env : enum_env) (kv : str * scalar) : result (str * str) :=
  bind (key_to_string kfmt env (snd kv)) (fun s => Ok (fst kv, s)).

Definition name_elem (n : str) : pelem := {| ename := n; ekeys := [] |}.

(* pathElems[len(pathElems)-1].Key = keys : index out of range on an empty relSchemaPath *)
Fixpoint set_last_keys (es : list pelem) (ks : list (str * str)) : result (list pelem) :=
  match es with
  | [] => Panic
  | [e] => Ok [ {| ename := ename e; ekeys := ks |} ]
  | e :: r => bind (set_last_keys r ks) (fun r' => Ok (e :: r'))
  end.

(* NodePath.relPath *)
Definition rel_path (kfmt : N -> str) (env : enum_env) (n : nodepath) : result (list pelem) :=
  let elems := map name_elem (np_rel n) in
  match np_keys n with
  | [] => Ok elems
  | ks => bind (mapM (render_key kfmt env) ks) (fun kvs => set_last_keys elems kvs)
  end.

(* ResolvePath walks the parent pointers from the node to the root, prepending each relative
   path; errors are collected and make the whole call fail (a panic propagates).
   At the root, the path struct must implement fakeRootPathStruct (Id, CustomData): `rootok`.
   A generated root path struct embeds DeviceRootBase, which provides them, unless an accessor of
   the same name (a top-level node called "id" or "custom-data") shadows the promoted method. *)
Fixpoint resolve_up (kfmt : N -> str) (env : enum_env) (rootok : bool) (up : list nodepath) (p : list pelem) (failed : bool)
  : result (list pelem) :=
  match up with
  | [] => if failed then Err else if rootok then Ok p else Err
  | n :: r =>
      match rel_path kfmt env n with
      | Ok rel => resolve_up kfmt env rootok r (rel ++ p) failed
      | Err => resolve_up kfmt env rootok r p true
      | Panic => Panic
      end
  end.

Definition resolve (kfmt : N -> str) (env : enum_env) (rootok : bool) (c : chain) : result gpath :=
  resolve_up kfmt env rootok (rev c) [] false.

(* ---------- the per-run check ---------- *)

Fixpoint list_eqb {A} (eqb : A -> A -> bool) (a b : list A) : bool :=
  match a, b with
  | [], [] => true
  | x :: a', y :: b' => eqb x y && list_eqb eqb a' b'
  | _, _ => false
  end.
Definition kv_eqb (a b : str * str) : bool := str_eqb (fst a) (fst b) && str_eqb (snd a) (snd b).
Definition pelem_eqb (a b : pelem) : bool := str_eqb (ename a) (ename b) && list_eqb kv_eqb (ekeys a) (ekeys b).
Definition result_eqb {A} (eqb : A -> A -> bool) (a b : result A) : bool :=
  match a, b with
  | Ok x, Ok y => eqb x y
  | Err, Err => true
  | Panic, Panic => true
  | _, _ => false
  end.

Fixpoint table_lookup (t : list (N * str)) (bits : N) : str :=
  match t with [] => [] | (b, s) :: r => if b =? bits then s else table_lookup r bits end.

(* one enumerated accessor chain: the NodePaths read back from the path structs, what
   ygot.ResolvePath returned, and the data path the GoStruct field tags give for the same fields *)
Record pscase := {
  ps_id : nat;
  ps_rootok : bool;                  (* the root path struct implements fakeRootPathStruct *)
  ps_chain : chain;
  ps_observed : result gpath;
  ps_tagpath : list str
}.

(* (a) the model's ResolvePath on the dumped NodePaths = what the implementation returned *)
Definition pscase_model_ok (kf : list (N * str)) (env : enum_env) (c : pscase) : bool :=
  result_eqb (list_eqb pelem_eqb) (resolve (table_lookup kf) env (ps_rootok c) (ps_chain c)) (ps_observed c).
(* (b) the element names of the resolved path = the data path of the GoStruct field tags *)
Definition pscase_tags_ok (c : pscase) : bool :=
  match ps_observed c with
  | Ok p => list_eqb str_eqb (map ename p) (ps_tagpath c)
  | _ => true
  end.
Definition pscase_ok (kf : list (N * str)) (env : enum_env) (c : pscase) : bool :=
  pscase_model_ok kf env c && pscase_tags_ok c.

Definition model_mismatches (kf : list (N * str)) (env : enum_env) (cs : list pscase) : list nat :=
  map ps_id (filter (fun c => negb (pscase_model_ok kf env c)) cs).
Definition tag_mismatches (cs : list pscase) : list nat :=
  map ps_id (filter (fun c => negb (pscase_tags_ok c)) cs).
Definition mismatches (kf : list (N * str)) (env : enum_env) (cs : list pscase) : list nat :=
  map ps_id (filter (fun c => negb (pscase_ok kf env c)) cs).
