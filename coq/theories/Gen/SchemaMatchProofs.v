(* SchemaMatchProofs.v — C26: the boolean checker fits_b decides the declarative statement fits. *)
From Ygot Require Import Base.Base Gen.SchemaEq Gen.SchemaEqProofs Gen.SchemaMatch.

Section GnodeInd.
  Variable P : gnode -> Prop.
  Hypothesis H : forall f k sub, Forall P sub -> P (GN f k sub).
  Fixpoint gnode_ind2 (g : gnode) : P g :=
    match g with
    | GN f k sub =>
        H f k sub
          ((fix go (l : list gnode) : Forall P l :=
              match l with
              | [] => Forall_nil P
              | x :: r => Forall_cons x (gnode_ind2 x) (go r)
              end) sub)
    end.
End GnodeInd.

Lemma path_eqb_eq : forall a b, path_eqb a b = true <-> a = b.
Proof. apply list_eqb_eq'. apply str_eqb_eq. Qed.

Lemma paths_eqb_eq : forall a b, paths_eqb a b = true <-> a = b.
Proof. apply list_eqb_eq'. apply path_eqb_eq. Qed.

Lemma nil_b_eq : forall A (l : list A), nil_b l = true <-> l = [].
Proof. intros A [|x l]; simpl; split; intro H; try reflexivity; discriminate. Qed.

Lemma existsb_str_in : forall x l, existsb (str_eqb x) l = true <-> In x l.
Proof.
  intros x l. rewrite existsb_exists. split.
  - intros [y [Hy E]]. apply str_eqb_eq in E. subst. exact Hy.
  - intros H. exists x. split; [exact H | apply str_eqb_eq; reflexivity].
Qed.

Lemma nodup_b_spec : forall l, nodup_b l = true <-> NoDup l.
Proof.
  induction l as [|x l IH]; simpl.
  - split; [constructor | reflexivity].
  - rewrite Bool.andb_true_iff, Bool.negb_true_iff, IH. split.
    + intros [H1 H2]. constructor; [|exact H2]. intro Hin. apply existsb_str_in in Hin. congruence.
    + intros H. inversion H as [|y l' Hn Hd]; subst. split; [|exact Hd].
      destruct (existsb (str_eqb x) l) eqn:E; [|reflexivity]. apply existsb_str_in in E. contradiction.
Qed.

(* ---------- exactly one ---------- *)

Lemma count_zero : forall A (p : A -> bool) (P : A -> Prop), (forall x, p x = true <-> P x) ->
  forall l, count_b p l = O <-> Forall (fun y => ~ P y) l.
Proof.
  intros A p P Hp. unfold count_b. induction l as [|x l IH]; simpl.
  - split; [constructor | reflexivity].
  - destruct (p x) eqn:E; simpl.
    + split; [discriminate|]. intros H. inversion H; subst. exfalso. apply H2. apply Hp. exact E.
    + rewrite IH. split.
      * intros H. constructor; [|exact H]. intro HP. apply Hp in HP. congruence.
      * intros H. inversion H; assumption.
Qed.

Lemma exactly_one_spec : forall A (p : A -> bool) (P : A -> Prop), (forall x, p x = true <-> P x) ->
  forall l, Nat.eqb (count_b p l) 1 = true <-> exactly_one P l.
Proof.
  intros A p P Hp l. rewrite Nat.eqb_eq. unfold exactly_one. induction l as [|x l IH].
  - simpl. split; [discriminate|]. intros [l1 [y [l2 [E _]]]]. destruct l1; discriminate.
  - unfold count_b in *. simpl. destruct (p x) eqn:E; simpl.
    + split.
      * intros H. injection H as H. exists [], x, l. repeat split; auto.
        -- apply Hp. exact E.
        -- apply (count_zero A p P Hp). exact H.
      * intros [l1 [y [l2 [El [Py [F1 F2]]]]]]. f_equal. apply (count_zero A p P Hp).
        destruct l1 as [|z l1]; simpl in El; injection El as -> ->.
        -- exact F2.
        -- inversion F1; subst. exfalso. apply H1. apply Hp. exact E.
    + rewrite IH. split.
      * intros [l1 [y [l2 [El [Py [F1 F2]]]]]]. exists (x :: l1), y, l2. subst l. repeat split; auto.
        constructor; [|exact F1]. intro HP. apply Hp in HP. congruence.
      * intros [l1 [y [l2 [El [Py [F1 F2]]]]]]. destruct l1 as [|z l1]; simpl in El; injection El as -> ->.
        -- apply Hp in Py. congruence.
        -- inversion F1; subst. exists l1, y, l2. repeat split; auto.
Qed.

(* ---------- one field ---------- *)

Lemma tags_ok_b_spec : forall cb e x f,
  tags_ok_b cb e x f = true <->
  g_paths f = expected_paths cb e x /\ g_mods f = expected_mods cb e x /\
  ((g_spaths f = [] /\ g_smods f = []) \/
   (g_spaths f = expected_spaths cb e x /\ g_smods f = expected_smods cb e x)).
Proof.
  intros. unfold tags_ok_b.
  rewrite !Bool.andb_true_iff, Bool.orb_true_iff, !Bool.andb_true_iff, !paths_eqb_eq, !nil_b_eq. tauto.
Qed.

Lemma field_ok_b_spec : forall cb om e x f, field_ok_b cb om e x f = true <-> field_ok cb om e x f.
Proof.
  intros. unfold field_ok_b, field_ok. rewrite !Bool.andb_true_iff, path_eqb_eq, tags_ok_b_spec. tauto.
Qed.

(* ---------- the checker decides the statement ---------- *)

Theorem fits_b_spec : forall g cb om isroot cfg e,
  fits_b cb om isroot cfg e g = true <-> fits cb om isroot cfg e g.
Proof.
  induction g as [fi k fields IH] using gnode_ind2. intros cb om isroot cfg e.
  cbn [fits_b fits]. set (xs := expected cb isroot cfg e).
  rewrite !Bool.andb_true_iff, nodup_b_spec, forallb_forall.
  assert (Hcov : (forall x, In x xs ->
                     Nat.eqb (count_b (fun f => path_eqb (primary_path f) (x_path x)) fields) 1 = true) <->
                 (forall x, In x xs -> exactly_one (fun f => primary_path f = x_path x) fields)).
  { split; intros H x Hx; specialize (H x Hx);
      apply (exactly_one_spec gnode (fun f => path_eqb (primary_path f) (x_path x))
               (fun f => primary_path f = x_path x) (fun f => path_eqb_eq (primary_path f) (x_path x))); exact H. }
  rewrite Hcov. clear Hcov.
  match goal with
  | |- (_ /\ _) /\ ?B = true <-> _ /\ _ /\ ?C => assert (Hall : B = true <-> C)
  end.
  { clear - IH. induction IH as [|f r Hf Hr IHr].
    - split; [constructor | reflexivity].
    - rewrite Bool.andb_true_iff, existsb_exists, IHr. clear IHr.
      split; intros [[x Hx] Hrest]; (split; [|exact Hrest]); exists x.
      + destruct Hx as [Hin Hx]. apply Bool.andb_true_iff in Hx. destruct Hx as [H1 H2].
        split; [exact Hin|]. split; [apply field_ok_b_spec; exact H1|].
        intros Hd. rewrite Hd in H2. apply Hf. exact H2.
      + destruct Hx as [Hin [H1 H2]]. split; [exact Hin|]. apply Bool.andb_true_iff.
        split; [apply field_ok_b_spec; exact H1|].
        destruct (is_dirnode (x_node x)) eqn:Hd; [|reflexivity]. apply Hf. apply H2. reflexivity. }
  rewrite Hall. tauto.
Qed.

Theorem gcase_ok_spec : forall c, gcase_ok c = true <-> gcase_fits c.
Proof. intros c. apply fits_b_spec. Qed.

Theorem gcases_lift : forall cs, forallb gcase_ok cs = true -> forall c, In c cs -> gcase_fits c.
Proof. intros cs H c Hc. rewrite forallb_forall in H. apply gcase_ok_spec. apply (H c Hc). Qed.

(* ---------- consequences of fits: the data-node coverage reading ---------- *)

(* every expected child is reached by exactly one field, and that field's first path is its schema path *)
Theorem fits_covers : forall cb om isroot cfg e f k fields,
  fits cb om isroot cfg e (GN f k fields) ->
  forall x, In x (expected cb isroot cfg e) ->
  exists l1 g l2, fields = l1 ++ g :: l2 /\ primary_path g = x_path x /\
                  Forall (fun y => primary_path y <> x_path x) l1 /\ Forall (fun y => primary_path y <> x_path x) l2.
Proof. intros cb om isroot cfg e f k fields [_ [H _]] x Hx. exact (H x Hx). Qed.

(* every field is an expected child with fitting tags and kind *)
Theorem fits_fields : forall cb om isroot cfg e f k fields,
  fits cb om isroot cfg e (GN f k fields) ->
  forall g, In g fields -> exists x, In x (expected cb isroot cfg e) /\ field_ok cb om e x g /\
     (is_dirnode (x_node x) = true -> fits cb om false (x_cfg x) (x_node x) g).
Proof.
  intros cb om isroot cfg e f k fields [_ [_ H]] g Hg. induction fields as [|h r IH]; [destruct Hg|].
  destruct H as [Hh Hr]. destruct Hg as [->|Hg]; [exact Hh | exact (IH Hr Hg)].
Qed.

(* uncompressed generation: the expected children of a directory are exactly its data children,
   choice and case nodes being skipped *)
Theorem find_children_uncompressed : forall cfg e,
  find_children Uncompressed cfg e = children_plain false cfg e.
Proof. intros. unfold find_children. simpl. reflexivity. Qed.

Theorem children_plain_no_choice : forall cfg n,
  Forall (fun nc => choice_or_case (fst nc) = false) (flatten_choice cfg n).
Proof.
  intros cfg n. revert cfg. induction n as [a t ch IH] using ynode_ind2. intros cfg.
  cbn [flatten_choice]. destruct ((y_kind a =? K_choice) || (y_kind a =? K_case)) eqn:E.
  - induction IH as [|c r Hc Hr IHr]; [constructor|]. apply Forall_app. split; [apply Hc | apply IHr].
  - constructor; [|constructor]. unfold choice_or_case, node_kind. simpl. exact E.
Qed.

(* ---------- the schema of C26 is the embedded schema of C27 plus module names ---------- *)

Lemma erase_xf : forall o n reach pp, erase_mods (xf o true reach pp n) = xf o false reach pp n.
Proof.
  intros o. induction n as [a t ch IH] using ynode_ind2. intros reach pp.
  cbn [xf erase_mods]. f_equal. rewrite map_map. clear - IH.
  induction IH as [|c r Hc Hr IHr]; [reflexivity|]. simpl. rewrite Hc, IHr. reflexivity.
Qed.

Lemma erase_name : forall n, node_name (erase_mods n) = node_name n.
Proof. intros [a t ch]. reflexivity. Qed.

Lemma erase_insert : forall n l,
  map erase_mods (insert_node n l) = insert_node (erase_mods n) (map erase_mods l).
Proof.
  intros n l. induction l as [|m r IH]; [reflexivity|].
  cbn [insert_node map]. rewrite !erase_name.
  destruct (str_cmp (node_name n) (node_name m)); simpl; try reflexivity. rewrite IH. reflexivity.
Qed.

Lemma erase_sort : forall l, map erase_mods (sort_nodes l) = sort_nodes (map erase_mods l).
Proof.
  induction l as [|n l IH]; [reflexivity|]. unfold sort_nodes in *. simpl.
  rewrite erase_insert, IH. reflexivity.
Qed.

Theorem erase_embed_gen : forall o mods, erase_mods (embed_gen o true mods) = embed o mods.
Proof.
  intros o mods. unfold embed, embed_gen. cbn [erase_mods]. f_equal.
  rewrite erase_sort. f_equal.
  induction (filter (fun m => negb (excluded o m)) mods) as [|m r IH]; [reflexivity|].
  simpl. rewrite map_app, IH. f_equal. unfold module_entries. rewrite map_map.
  apply map_ext. intros c. apply erase_xf.
Qed.

Theorem gcase_schema_is_embedded : forall c, erase_mods (gcase_schema c) = embed (gc_opts c) (gc_mods c).
Proof. intros c. apply erase_embed_gen. Qed.
