(* SchemaMatch.v — C26: a generated GoStruct package matches the schema it embeds.

   The harness (harness/ydrive/c26_godump.go) prints, for every generated package, the tree of Go
   struct types reachable from the fake root (field names, struct tags, and the *kind* of each
   field's Go type: gokind) next to the goyang tree of the input modules (Gen/SchemaEq.v ynode,
   with instantiating-module names).  This file defines
     - `expected`: the fields a struct must have for a schema directory under a compression
       behaviour — a transcription of genutil.FindAllChildren (incl. findAllChildrenWithoutCompression,
       the config/state look-ahead, shadow children, surrounding-container removal, choice/case
       skipping), ygen.findRootEntries/createFakeRoot for the fake root, and ygen.findMapPaths for
       the path/module tags (incl. the compressed list-key alternative path);
     - `fits`: the declarative statement (every expected child appears as exactly one field; every
       field is an expected child with the right tags and a Go type kind that fits the node kind);
     - `fits_b`: the boolean checker evaluated on every run.
   Definitions only; fits_b_spec is proved in SchemaMatchProofs.v. *)
From Ygot Require Import Base.Base Gen.SchemaEq.

(* ---------- Go side ---------- *)

(* reflect.Kind numbers *)
Definition RK_bool : N := 1.
Definition RK_int8 : N := 3.
Definition RK_float64 : N := 14.
Definition RK_string : N := 24.

Inductive gokind :=
| GPtrScalar (k : N)          (* *T, T a Go scalar of reflect kind k (leaf) *)
| GScalar (k : N)             (* T (list key component, leaf-list element) *)
| GEnum                       (* int64-kinded type implementing ygot.GoEnum *)
| GUnionIface                 (* interface type (union) *)
| GBinary                     (* ygot Binary ([]byte) *)
| GEmpty                      (* ygot YANGEmpty (bool) *)
| GSliceScalar (elem : gokind)         (* leaf-list *)
| GMap (keys : list gokind)            (* map[K]*Struct, K a scalar or a generated key struct *)
| GOrderedMap (keys : list gokind)     (* *<List>_OrderedMap *)
| GSliceStruct                         (* []*Struct: unkeyed list *)
| GStructPtr                           (* *Struct: container *)
| GOther.

Record gfinfo := MkG {
  g_name : str;
  g_paths : list (list str);       (* `path` tag: alternatives of '/'-separated elements *)
  g_mods : list (list str);        (* `module` tag *)
  g_spaths : list (list str);      (* `shadow-path` tag *)
  g_smods : list (list str)        (* `shadow-module` tag *)
}.

(* a field; sub = the fields of the struct type behind a container / list field, [] for leaves *)
Inductive gnode := GN (f : gfinfo) (k : gokind) (sub : list gnode).
Definition g_info (g : gnode) : gfinfo := match g with GN f _ _ => f end.
Definition g_kind (g : gnode) : gokind := match g with GN _ k _ => k end.
Definition g_sub (g : gnode) : list gnode := match g with GN _ _ s => s end.
Definition primary_path (g : gnode) : list str := hd [] (g_paths (g_info g)).

(* ---------- compression behaviour (genutil.CompressBehaviour) ---------- *)

Inductive cbehaviour :=
| Uncompressed | UncompressedExcludeDerivedState | PreferIntendedConfig | PreferOperationalState | ExcludeDerivedState.

Definition compress_enabled (cb : cbehaviour) : bool :=
  match cb with Uncompressed | UncompressedExcludeDerivedState => false | _ => true end.
Definition state_excluded (cb : cbehaviour) : bool :=
  match cb with ExcludeDerivedState | UncompressedExcludeDerivedState => true | _ => false end.
Definition prio_name (cb : cbehaviour) : str := match cb with PreferOperationalState => s_state | _ => s_config end.
Definition deprio_name (cb : cbehaviour) : str := match cb with PreferOperationalState => s_config | _ => s_state end.

(* ---------- schema helpers ---------- *)

Definition choice_or_case (n : ynode) : bool := (node_kind n =? K_choice) || (node_kind n =? K_case).
Definition is_dirnode (n : ynode) : bool := is_dir_kind (node_kind n).
Definition has_listattr (n : ynode) : bool := match y_listattr (node_attrs n) with Some _ => true | None => false end.
Definition is_list (n : ynode) : bool := (node_kind n =? K_dir) && has_listattr n.
Definition is_container (n : ynode) : bool := (node_kind n =? K_dir) && negb (has_listattr n).
Definition is_leaf (n : ynode) : bool := (node_kind n =? K_leaf) && negb (has_listattr n).
Definition is_leaflist (n : ynode) : bool := (node_kind n =? K_leaf) && has_listattr n.
Definition is_config_state (n : ynode) : bool :=
  is_dirnode n && (str_eqb (node_name n) s_config || str_eqb (node_name n) s_state).
Definition node_mod (n : ynode) : str := y_mod (node_attrs n).
Definition type_kind (n : ynode) : N := match node_type n with Some (YT _ k _ _ _ _ _ _ _ _ _ _ _ _ _ _) => k | None => 0 end.
Definition TK_leafref : N := 17.

(* (yang.Entry).ReadOnly, top down: the inherited value is passed along *)
Definition eff_cfg (inherited : bool) (n : ynode) : bool :=
  let c := y_config (node_attrs n) in
  if c =? TS_true then true else if c =? TS_false then false else inherited.

(* util.FindFirstNonChoiceOrCase: the first descendants that are neither choice nor case, with
   their effective config *)
Fixpoint flatten_choice (cfg : bool) (n : ynode) : list (ynode * bool) :=
  match n with
  | YN a t ch =>
      if (y_kind a =? K_choice) || (y_kind a =? K_case)
      then (fix go (l : list ynode) : list (ynode * bool) :=
              match l with
              | [] => []
              | c :: r => flatten_choice (eff_cfg cfg c) c ++ go r
              end) ch
      else [(n, cfg)]
  end.

(* ---------- expected fields ---------- *)

Record xchild := MkX {
  x_path : list str;                 (* schema path relative to the parent struct, choice/case names skipped *)
  x_mods : list str;                 (* instantiating module of every path element *)
  x_node : ynode;
  x_cfg : bool;                      (* effective config of x_node *)
  x_shadow : option (list str * list str)    (* path and modules of the deprioritised duplicate *)
}.
Definition x_name (x : xchild) : str := node_name (x_node x).

Definition direct (pfx : list ynode) (n : ynode) (cfg : bool) : xchild :=
  MkX (map node_name pfx ++ [node_name n]) (map node_mod pfx ++ [node_mod n]) n cfg None.

(* findAllChildrenWithoutCompression *)
Definition children_plain (excl : bool) (cfg : bool) (e : ynode) : list xchild :=
  flat_map (fun c =>
    let cc := eff_cfg cfg c in
    if excl && negb cc then []
    else if choice_or_case c then map (fun nc => direct [] (fst nc) (snd nc)) (flatten_choice cc c)
    else [direct [] c cc]) (node_children e).

(* the members of a config/state container, choice/case flattened *)
Definition cs_members (cc : bool) (c : ynode) : list (ynode * bool) :=
  flat_map (fun gc => let gcc := eff_cfg cc gc in
                      if choice_or_case gc then flatten_choice gcc gc else [(gc, gcc)]) (node_children c).

(* one child of e in FindAllChildren's loop (compression on); `prio_names`: the names already
   taken from the prioritised container.  Result: direct children and shadow candidates. *)
Definition compressed_child (cb : cbehaviour) (e_is_list : bool) (prio_names : list str) (cfg : bool) (c : ynode)
  : list xchild * list xchild :=
  let excl := state_excluded cb in
  let cc := eff_cfg cfg c in
  if excl && negb cc then ([], [])
  else if is_config_state c then
    let ms := map (fun nc => direct [c] (fst nc) (snd nc)) (cs_members cc c) in
    if str_eqb (node_name c) (deprio_name cb)
    then (filter (fun x => negb (existsb (str_eqb (x_name x)) prio_names)) ms,
          filter (fun x => existsb (str_eqb (x_name x)) prio_names) ms)
    else (ms, [])
  else if is_dirnode c then
    match node_children c with
    | [l] =>
        if is_list l then
          (if excl && negb (eff_cfg cc l) then []
           else [direct (if choice_or_case c then [] else [c]) l (eff_cfg cc l)], [])
        else if choice_or_case c then (map (fun nc => direct [] (fst nc) (snd nc)) (flatten_choice cc c), [])
        else ([direct [] c cc], [])
    | _ =>
        if choice_or_case c then (map (fun nc => direct [] (fst nc) (snd nc)) (flatten_choice cc c), [])
        else ([direct [] c cc], [])
    end
  else
    (* a leaf: a leafref directly under a list is a duplicated key and is dropped *)
    if e_is_list && (type_kind c =? TK_leafref) then ([], []) else ([direct [] c cc], []).

Definition attach_shadow (shadows : list xchild) (x : xchild) : xchild :=
  match find (fun s => str_eqb (x_name s) (x_name x)) shadows with
  | Some s => MkX (x_path x) (x_mods x) (x_node x) (x_cfg x) (Some (x_path s, x_mods s))
  | None => x
  end.

(* FindAllChildren with compression *)
Definition children_compressed (cb : cbehaviour) (cfg : bool) (e : ynode) : list xchild :=
  let chs := node_children e in
  let prio := find (fun c => str_eqb (node_name c) (prio_name cb)) chs in
  let others := filter (fun c => negb (str_eqb (node_name c) (prio_name cb))) chs in
  let ordered := (match prio with Some p => [p] | None => [] end) ++ others in
  let prio_names :=
    match prio with
    | Some p => if is_config_state p && negb (state_excluded cb && negb (eff_cfg cfg p))
                then map (fun nc => node_name (fst nc)) (cs_members (eff_cfg cfg p) p) else []
    | None => []
    end in
  let rs := map (compressed_child cb (is_list e) prio_names cfg) ordered in
  let directs := flat_map fst rs in
  let shadows := flat_map snd rs in
  map (attach_shadow shadows) directs.

Definition find_children (cb : cbehaviour) (cfg : bool) (e : ynode) : list xchild :=
  if state_excluded cb && negb cfg then []
  else if compress_enabled cb then children_compressed cb cfg e
  else children_plain (state_excluded cb) cfg e.

(* the fake root: ygen.findRootEntries + createFakeRoot, then FindAllChildren's state filter *)
Definition root_children (cb : cbehaviour) (root : ynode) : list xchild :=
  let excl := state_excluded cb in
  flat_map (fun c =>
    let cc := eff_cfg true c in
    if excl && negb cc then []
    else if node_kind c =? K_leaf then [direct [] c cc]
    else if choice_or_case c then
      map (fun nc => direct [] (fst nc) (snd nc)) (filter (fun nc => node_kind (fst nc) =? K_dir) (flatten_choice cc c))
    else if node_kind c =? K_dir then
      if compress_enabled cb then
        if is_config_state c then []
        else match node_children c with
             | [l] => if is_list l
                      then (if excl && negb (eff_cfg cc l) then [] else [direct [c] l (eff_cfg cc l)])
                      else [direct [] c cc]
             | _ => [direct [] c cc]
             end
      else [direct [] c cc]
    else []) (node_children root).

Definition expected (cb : cbehaviour) (isroot : bool) (cfg : bool) (e : ynode) : list xchild :=
  if isroot then root_children cb e else find_children cb cfg e.

(* ---------- tags (ygen.findMapPaths) ---------- *)

Definition key_names (e : ynode) : list str := filter (fun s => negb (nil_b s)) (split 32 (y_key (node_attrs e))).

(* compressed list entry: the field that a leafref key of the list points to also carries the
   key's own path *)
Definition key_alt (cb : cbehaviour) (e : ynode) (path mods : list str) : list (list str) * list (list str) :=
  match path, mods with
  | [c; k], [_; mk] =>
      if compress_enabled cb && is_list e && (str_eqb c s_config || str_eqb c s_state) &&
         existsb (str_eqb k) (key_names e) &&
         existsb (fun n => str_eqb (node_name n) k && is_leaf n && (type_kind n =? TK_leafref)) (node_children e)
      then ([[k]], [[mk]]) else ([], [])
  | _, _ => ([], [])
  end.

Definition expected_paths (cb : cbehaviour) (e : ynode) (x : xchild) : list (list str) :=
  x_path x :: fst (key_alt cb e (x_path x) (x_mods x)).
Definition expected_mods (cb : cbehaviour) (e : ynode) (x : xchild) : list (list str) :=
  x_mods x :: snd (key_alt cb e (x_path x) (x_mods x)).
(* shadow tags (findMapPaths with shadowSchemaPaths): the deprioritised duplicate's path if there is
   one, followed by the same key alternative as the direct field's (it is computed from the direct
   field, so a key field without a duplicate still gets `shadow-path:"<key>"`) *)
Definition expected_spaths (cb : cbehaviour) (e : ynode) (x : xchild) : list (list str) :=
  (match x_shadow x with Some (p, _) => [p] | None => [] end) ++ fst (key_alt cb e (x_path x) (x_mods x)).
Definition expected_smods (cb : cbehaviour) (e : ynode) (x : xchild) : list (list str) :=
  (match x_shadow x with Some (_, m) => [m] | None => [] end) ++ snd (key_alt cb e (x_path x) (x_mods x)).

Definition paths_eqb : list (list str) -> list (list str) -> bool := list_eqb (list_eqb str_eqb).

(* shadow tags are only emitted when the deprioritised path is to be tolerated (or always, for
   some generator versions): a field may omit them; when present they must be the expected ones *)
Definition tags_ok_b (cb : cbehaviour) (e : ynode) (x : xchild) (f : gfinfo) : bool :=
  paths_eqb (g_paths f) (expected_paths cb e x) && paths_eqb (g_mods f) (expected_mods cb e x) &&
  (nil_b (g_spaths f) && nil_b (g_smods f) ||
   paths_eqb (g_spaths f) (expected_spaths cb e x) && paths_eqb (g_smods f) (expected_smods cb e x)).

(* ---------- kinds ---------- *)

(* the reflect kind of the Go scalar for a YANG base type kind (0: not a plain scalar) *)
Definition scalar_kind (tk : N) : N :=
  if tk =? 1 then 3 else if tk =? 2 then 4 else if tk =? 3 then 5 else if tk =? 4 then 6          (* int8..int64 *)
  else if tk =? 5 then 8 else if tk =? 6 then 9 else if tk =? 7 then 10 else if tk =? 8 then 11   (* uint8..uint64 *)
  else if tk =? 11 then RK_bool else if tk =? 12 then RK_float64 else if tk =? 18 then RK_string else 0.

(* does Go kind g (value form: GScalar k / GEnum / GUnionIface / GBinary / GEmpty) fit a YANG type?
   A leafref takes the type of its target (not resolved here: any leaf kind fits); a union is an
   interface unless all its members have one Go type, so a member's kind also fits. *)
Fixpoint value_kind_ok (t : ytyp) (g : gokind) : bool :=
  match t with
  | YT _ tk _ _ _ _ _ _ _ _ _ _ _ _ _ ms =>
      if tk =? TK_leafref then
        match g with GScalar _ | GEnum | GUnionIface | GBinary | GEmpty => true | _ => false end
      else if tk =? 19 then
        match g with
        | GUnionIface => true
        | _ => (fix any (l : list ytyp) : bool := match l with [] => false | m :: r => value_kind_ok m g || any r end) ms
        end
      else if (tk =? 14) || (tk =? 15) then match g with GEnum => true | _ => false end
      else if tk =? 9 then match g with GBinary => true | _ => false end
      else if tk =? 13 then match g with GEmpty => true | _ => false end
      else if scalar_kind tk =? 0 then match g with GOther => true | _ => false end
      else match g with GScalar k => k =? scalar_kind tk | _ => false end
  end.

(* a leaf field: scalars are held by pointer *)
Definition leaf_kind_ok (t : ytyp) (g : gokind) : bool :=
  match g with
  | GPtrScalar k => value_kind_ok t (GScalar k)
  | GScalar _ => false
  | _ => value_kind_ok t g
  end.

Definition key_leaf_type (l : ynode) (k : str) : option ytyp :=
  match find (fun n => str_eqb (node_name n) k) (node_children l) with
  | Some n => node_type n
  | None => None
  end.

Fixpoint keys_ok (l : ynode) (ks : list str) (gs : list gokind) : bool :=
  match ks, gs with
  | [], [] => true
  | k :: ks', g :: gs' =>
      match key_leaf_type l k with Some t => value_kind_ok t g | None => false end && keys_ok l ks' gs'
  | _, _ => false
  end.

Definition ordered_user (n : ynode) : bool :=
  match y_listattr (node_attrs n) with Some (_, _, o) => o | None => false end.

(* om: ordered maps are generated for ordered-by user lists *)
Definition kind_ok_b (om : bool) (n : ynode) (g : gokind) : bool :=
  if is_leaf n then match node_type n with Some t => leaf_kind_ok t g | None => false end
  else if is_leaflist n then
    match node_type n, g with Some t, GSliceScalar el => value_kind_ok t el | _, _ => false end
  else if is_list n then
    match key_names n, g with
    | [], GSliceStruct => true
    | [], _ => false
    | ks, GMap gs => negb (om && ordered_user n) && keys_ok n ks gs
    | ks, GOrderedMap gs => om && ordered_user n && keys_ok n ks gs
    | _, _ => false
    end
  else if is_container n then match g with GStructPtr => true | _ => false end
  else false.

(* ---------- the statement ---------- *)

Fixpoint nodup_b (l : list str) : bool :=
  match l with
  | [] => true
  | x :: r => negb (existsb (str_eqb x) r) && nodup_b r
  end.

Definition count_b {A} (p : A -> bool) (l : list A) : nat := length (filter p l).

Definition path_eqb : list str -> list str -> bool := list_eqb str_eqb.

(* exactly one element of l satisfies P *)
Definition exactly_one {A} (P : A -> Prop) (l : list A) : Prop :=
  exists l1 x l2, l = l1 ++ x :: l2 /\ P x /\ Forall (fun y => ~ P y) l1 /\ Forall (fun y => ~ P y) l2.

Definition field_ok (cb : cbehaviour) (om : bool) (e : ynode) (x : xchild) (f : gnode) : Prop :=
  primary_path f = x_path x /\
  g_paths (g_info f) = expected_paths cb e x /\ g_mods (g_info f) = expected_mods cb e x /\
  ((g_spaths (g_info f) = [] /\ g_smods (g_info f) = []) \/
   (g_spaths (g_info f) = expected_spaths cb e x /\ g_smods (g_info f) = expected_smods cb e x)) /\
  kind_ok_b om (x_node x) (g_kind f) = true.

(* g: a struct (the fake root, a container or a list entry) described by its fields;
   e: the schema directory it stands for.  Every expected child appears as exactly one field and
   every field is an expected child whose tags resolve to it and whose Go type fits; recursively. *)
Fixpoint fits (cb : cbehaviour) (om : bool) (isroot cfg : bool) (e : ynode) (g : gnode) {struct g} : Prop :=
  match g with
  | GN _ _ fields =>
      let xs := expected cb isroot cfg e in
      NoDup (map x_name xs) /\
      (forall x, In x xs -> exactly_one (fun f => primary_path f = x_path x) fields) /\
      (fix all (l : list gnode) : Prop :=
         match l with
         | [] => True
         | f :: r =>
             (exists x, In x xs /\ field_ok cb om e x f /\
                        (is_dirnode (x_node x) = true -> fits cb om false (x_cfg x) (x_node x) f)) /\ all r
         end) fields
  end.

(* ---------- the checker ---------- *)

Definition field_ok_b (cb : cbehaviour) (om : bool) (e : ynode) (x : xchild) (f : gnode) : bool :=
  path_eqb (primary_path f) (x_path x) && tags_ok_b cb e x (g_info f) && kind_ok_b om (x_node x) (g_kind f).

Fixpoint fits_b (cb : cbehaviour) (om : bool) (isroot cfg : bool) (e : ynode) (g : gnode) {struct g} : bool :=
  match g with
  | GN _ _ fields =>
      let xs := expected cb isroot cfg e in
      nodup_b (map x_name xs) &&
      forallb (fun x => Nat.eqb (count_b (fun f => path_eqb (primary_path f) (x_path x)) fields) 1) xs &&
      (fix all (l : list gnode) : bool :=
         match l with
         | [] => true
         | f :: r =>
             existsb (fun x => field_ok_b cb om e x f &&
                               (if is_dirnode (x_node x) then fits_b cb om false (x_cfg x) (x_node x) f else true)) xs
             && all r
         end) fields
  end.

(* one generated package *)
Record gcase := { gc_name : str; gc_cb : cbehaviour; gc_om : bool; gc_opts : eopts; gc_mods : list ynode; gc_go : gnode }.
Definition gcase_schema (c : gcase) : ynode := embed_gen (gc_opts c) true (gc_mods c).
Definition gcase_ok (c : gcase) : bool := fits_b (gc_cb c) (gc_om c) true true (gcase_schema c) (gc_go c).
Definition gcase_fits (c : gcase) : Prop := fits (gc_cb c) (gc_om c) true true (gcase_schema c) (gc_go c).

(* the schema used by `fits` is the embedded schema with the instantiating modules added:
   forgetting the module names gives exactly `embed` (SchemaMatchProofs.erase_embed_gen) *)
Fixpoint erase_mods (n : ynode) : ynode :=
  match n with
  | YN a t ch =>
      YN {| y_name := y_name a; y_kind := y_kind a; y_config := y_config a; y_mandatory := y_mandatory a;
            y_key := y_key a; y_listattr := y_listattr a; y_presence := y_presence a; y_default := y_default a;
            y_units := y_units a; y_descr := y_descr a; y_mod := []; y_prefix := y_prefix a; y_spath := y_spath a |}
         t (map erase_mods ch)
  end.

(* ---------- diagnostics (reports only) ---------- *)

Inductive gdiag :=
| DDupNames (at_ : list str)
| DMissing (at_ : list str) (path : list str)        (* expected child without (exactly one) field *)
| DBadField (at_ : list str) (field : str).          (* field that is no expected child / wrong tags or kind *)

Fixpoint fits_diag (fuel : nat) (cb : cbehaviour) (om : bool) (isroot cfg : bool) (e : ynode) (at_ : list str) (g : gnode) : list gdiag :=
  match fuel with
  | O => []
  | S fuel' =>
      let xs := expected cb isroot cfg e in
      let fields := g_sub g in
      (if nodup_b (map x_name xs) then [] else [DDupNames at_]) ++
      flat_map (fun x => if Nat.eqb (count_b (fun f => path_eqb (primary_path f) (x_path x)) fields) 1 then []
                         else [DMissing at_ (x_path x)]) xs ++
      flat_map (fun f =>
        match find (fun x => path_eqb (primary_path f) (x_path x)) xs with
        | None => [DBadField at_ (g_name (g_info f))]
        | Some x =>
            (if field_ok_b cb om e x f then [] else [DBadField at_ (g_name (g_info f))]) ++
            (if is_dirnode (x_node x) then fits_diag fuel' cb om false (x_cfg x) (x_node x) (at_ ++ [g_name (g_info f)]) f else [])
        end) fields
  end.
Definition gcase_diag (c : gcase) : list gdiag :=
  fits_diag 64 (gc_cb c) (gc_om c) true true (gcase_schema c) [] (gc_go c).
