(* GoMapProofs.v — lemmas about the association-list model of Go maps (Gen/GoMap.v). *)
From Ygot Require Import Base.Base Gen.GoMap.

Section GoMapProofs.
  Variables K V : Type.
  Variable keq : K -> K -> bool.
  Hypothesis keq_spec : forall a b, keq a b = true <-> a = b.

  Lemma keq_refl : forall k, keq k k = true.
  Proof. intros k. apply keq_spec. reflexivity. Qed.

  Lemma keq_neq : forall a b, keq a b = false <-> a <> b.
  Proof.
    intros a b. split.
    - intros H E. apply keq_spec in E. congruence.
    - intros H. destruct (keq a b) eqn:E; auto. apply keq_spec in E. contradiction.
  Qed.

  Lemma keq_sym : forall a b, keq a b = keq b a.
  Proof.
    intros a b. destruct (keq a b) eqn:E.
    - apply keq_spec in E. subst. symmetry. apply keq_refl.
    - symmetry. apply keq_neq. apply keq_neq in E. congruence.
  Qed.

  Lemma gm_get_del : forall (k k' : K) (m : list (K * V)),
    gm_get keq k' (gm_del keq k m) = if keq k' k then None else gm_get keq k' m.
  Proof.
    intros k k' m. induction m as [|[k0 v0] t IH]; simpl.
    - destruct (keq k' k); reflexivity.
    - destruct (keq k k0) eqn:E1.
      + apply keq_spec in E1. subst k0. rewrite IH. destruct (keq k' k); reflexivity.
      + simpl. rewrite IH. destruct (keq k' k0) eqn:E2; auto.
        apply keq_spec in E2. subst k0. rewrite keq_sym, E1. reflexivity.
  Qed.

  Lemma gm_get_set : forall (k k' : K) (v : V) (m : list (K * V)),
    gm_get keq k' (gm_set keq k v m) = if keq k' k then Some v else gm_get keq k' m.
  Proof.
    intros. unfold gm_set. simpl. destruct (keq k' k) eqn:E; auto.
    rewrite gm_get_del, E. reflexivity.
  Qed.

  Lemma gm_mem_set : forall (k k' : K) (v : V) (m : list (K * V)),
    gm_mem keq k' (gm_set keq k v m) = keq k' k || gm_mem keq k' m.
  Proof. intros. unfold gm_mem. rewrite gm_get_set. destruct (keq k' k); reflexivity. Qed.

  Lemma gm_mem_del : forall (k k' : K) (m : list (K * V)),
    gm_mem keq k' (gm_del keq k m) = negb (keq k' k) && gm_mem keq k' m.
  Proof. intros. unfold gm_mem. rewrite gm_get_del. destruct (keq k' k); reflexivity. Qed.

  Lemma gm_mem_get : forall (k : K) (m : list (K * V)),
    gm_mem keq k m = true <-> exists v, gm_get keq k m = Some v.
  Proof.
    intros. unfold gm_mem. destruct (gm_get keq k m); split; intros H; eauto; try discriminate.
    destruct H; discriminate.
  Qed.

  Lemma gm_mem_false : forall (k : K) (m : list (K * V)),
    gm_mem keq k m = false <-> gm_get keq k m = None.
  Proof. intros. unfold gm_mem. destruct (gm_get keq k m); split; congruence. Qed.

  Lemma key_in_In : forall (k : K) l, key_in keq k l = true <-> In k l.
  Proof.
    intros k l. unfold key_in. rewrite existsb_exists. split.
    - intros [x [H E]]. apply keq_spec in E. subst. exact H.
    - intros H. exists k. split; auto. apply keq_refl.
  Qed.

  Lemma key_in_false : forall (k : K) l, key_in keq k l = false <-> ~ In k l.
  Proof.
    intros k l. rewrite <- key_in_In. destruct (key_in keq k l); split; congruence.
  Qed.
End GoMapProofs.
