(* Proofs about the model of protogen.fieldTag. *)
From Ygot Require Import Base.Base Gen.FieldTag.

Lemma masked_hash_le : forall s, masked_hash s <= tag_mask.
Proof.
  intros s. unfold masked_hash.
  destruct (N.eq_dec (N.land (fnv1_32 s) tag_mask) 0) as [E | NE]; [rewrite E; discriminate |].
  apply N.lt_succ_r. change (N.succ tag_mask) with (2 ^ 29).
  apply N.log2_lt_pow2; [lia |].
  eapply N.le_lt_trans; [apply N.log2_land |].
  eapply N.le_lt_trans; [apply N.le_min_r |]. vm_compute. reflexivity.
Qed.

(* the retry loop, characterised: the result is the masked hash of s followed by k underscores,
   for the least k whose masked hash is not in a retried range *)
Definition pad (s : bytes) (k : nat) : bytes := s ++ repeat underscore k.

Lemma pad_S : forall s k, pad (s ++ [underscore]) k = pad s (S k).
Proof. intros. unfold pad. rewrite <- app_assoc. reflexivity. Qed.
Lemma pad_0 : forall s, pad s 0 = s.
Proof. intros. unfold pad. simpl. apply app_nil_r. Qed.

Theorem field_tag_spec : forall fuel s v,
  field_tag fuel s = Some v ->
  exists k, (k < fuel)%nat /\ v = masked_hash (pad s k) /\ tag_retry v = false /\
            forall j, (j < k)%nat -> tag_retry (masked_hash (pad s j)) = true.
Proof.
  induction fuel as [| f IH]; intros s v H; [discriminate |].
  simpl in H. destruct (tag_retry (masked_hash s)) eqn:R.
  - apply IH in H. destruct H as (k & Hk & Hv & Hr & Hj).
    exists (S k). rewrite pad_S in Hv. repeat split; [lia | exact Hv | exact Hr |].
    intros j Hlt. destruct j as [| j]; [rewrite pad_0; exact R |].
    rewrite <- pad_S. apply Hj. lia.
  - inversion H; subst v. exists 0%nat. rewrite pad_0. repeat split; [lia | exact R |].
    intros j Hlt. lia.
Qed.

Theorem field_tag_complete : forall s k fuel,
  (k < fuel)%nat -> tag_retry (masked_hash (pad s k)) = false ->
  (forall j, (j < k)%nat -> tag_retry (masked_hash (pad s j)) = true) ->
  field_tag fuel s = Some (masked_hash (pad s k)).
Proof.
  intros s k. revert s. induction k as [| k IH]; intros s fuel Hf Hk Hj.
  - destruct fuel as [| f]; [lia |]. simpl. rewrite pad_0 in *. rewrite Hk. reflexivity.
  - destruct fuel as [| f]; [lia |]. simpl.
    assert (R : tag_retry (masked_hash s) = true) by (rewrite <- (pad_0 s); apply Hj; lia).
    rewrite R. rewrite <- pad_S. apply IH; [lia | rewrite pad_S; exact Hk |].
    intros j Hlt. rewrite pad_S. apply Hj. lia.
Qed.

(* the result does not depend on the fuel *)
Theorem field_tag_fuel_irrelevant : forall f1 f2 s v1 v2,
  field_tag f1 s = Some v1 -> field_tag f2 s = Some v2 -> v1 = v2.
Proof.
  intros f1 f2 s v1 v2 H1 H2.
  apply field_tag_spec in H1. apply field_tag_spec in H2.
  destruct H1 as (k1 & _ & E1 & R1 & J1). destruct H2 as (k2 & _ & E2 & R2 & J2).
  destruct (Nat.lt_trichotomy k1 k2) as [L | [E | L]].
  - apply J2 in L. rewrite <- E1, R1 in L. discriminate.
  - subst. reflexivity.
  - apply J1 in L. rewrite <- E2, R2 in L. discriminate.
Qed.

Theorem field_tag_mono : forall f1 f2 s v, (f1 <= f2)%nat -> field_tag f1 s = Some v -> field_tag f2 s = Some v.
Proof.
  intros f1 f2 s v Hle H. apply field_tag_spec in H. destruct H as (k & Hk & E & R & J).
  subst v. apply field_tag_complete; [lia | exact R | exact J].
Qed.

(* range of the result *)
Theorem field_tag_range : forall fuel s v,
  field_tag fuel s = Some v ->
  v = 0 \/ (1001 <= v <= tag_mask /\ ~ (19000 <= v <= 19999)).
Proof.
  intros fuel s v H. apply field_tag_spec in H. destruct H as (k & _ & E & R & _).
  assert (Hle : v <= tag_mask) by (subst v; apply masked_hash_le).
  unfold tag_retry in R. apply orb_false_iff in R. destruct R as [R1 R2].
  apply andb_false_iff in R1. apply andb_false_iff in R2.
  rewrite !N.leb_gt in R1, R2.
  destruct (N.eq_dec v 0) as [Z | NZ]; [left; exact Z | right].
  split; [split; [| exact Hle] |]; lia.
Qed.

Theorem field_tag_okb : forall fuel s v, field_tag fuel s = Some v -> tag_value_okb v = true.
Proof.
  intros fuel s v H. apply field_tag_range in H. unfold tag_value_okb.
  destruct H as [Z | [[H1 H2] H3]].
  - subst v. reflexivity.
  - apply orb_true_iff. right. rewrite !andb_true_iff, negb_true_iff, andb_false_iff, !N.leb_le, !N.leb_gt.
    repeat split; try assumption. lia.
Qed.

(* a non-zero result is a legal field number *)
Theorem field_tag_nonzero_legal : forall fuel s v,
  field_tag fuel s = Some v -> v <> 0 -> field_number_okb v = true.
Proof.
  intros fuel s v H NZ. apply field_tag_range in H. destruct H as [Z | [[H1 H2] H3]]; [contradiction |].
  unfold field_number_okb. rewrite !andb_true_iff, negb_true_iff, andb_false_iff, !N.leb_le, !N.leb_gt.
  repeat split; try assumption; lia.
Qed.

(* FNV-1 stays inside uint32 on byte input, i.e. the N arithmetic mod 2^32 is Go's uint32 arithmetic *)
Lemma lxor_lt_pow2 : forall a b n, a < 2 ^ n -> b < 2 ^ n -> N.lxor a b < 2 ^ n.
Proof.
  intros a b n Ha Hb.
  destruct (N.eq_dec a 0) as [Za | NZa]; [subst a; rewrite N.lxor_0_l; exact Hb |].
  destruct (N.eq_dec b 0) as [Zb | NZb]; [subst b; rewrite N.lxor_0_r; exact Ha |].
  destruct (N.eq_dec (N.lxor a b) 0) as [E | NE]; [rewrite E; lia |].
  apply N.log2_lt_pow2; [lia |].
  eapply N.le_lt_trans; [apply N.log2_lxor |].
  apply N.max_lub_lt; apply N.log2_lt_pow2; try lia; assumption.
Qed.

Theorem fnv1_32_uint32 : forall bs, Forall (fun c => c < 256) bs -> fnv1_32 bs < two32.
Proof.
  intros bs H. unfold fnv1_32.
  assert (G : forall h, h < two32 -> fold_left fnv1_step bs h < two32).
  { induction H as [| c bs Hc _ IH]; intros h Hh; [exact Hh |].
    simpl. apply IH. unfold fnv1_step. change two32 with (2 ^ 32).
    apply lxor_lt_pow2.
    - apply N.mod_lt. discriminate.
    - eapply N.lt_trans; [exact Hc | reflexivity]. }
  apply G. reflexivity.
Qed.
