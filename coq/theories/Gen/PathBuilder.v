(* PathBuilder.v — C29, builder-style list API of the generated path structs
   (-generate_path_structs -list_builder_key_threshold=N, ypathgen/pathgen.go
   generateChildConstructorsForListBuilderFormat / goKeyBuilderTemplate).

   For a list with at least N keys the generator emits
     func (n *ParentPath) XxxAny() *XxxPathAny          NodePath with every key "*"
     func (n *XxxPathAny) WithKey(v T) *XxxPathAny      { ygot.ModifyKey(n.NodePath, "key", v); return n }
   so the keys of a node are written IN PLACE, after the node (and possibly nodes below it) was
   built, and possibly after it was resolved.

   Transcribed here: ygot.ModifyKey (ygot/path_types.go) on the NodePath model of
   Gen/PathStructs.v, the two generated method shapes, and the checker of the per-run traces of
   stream "pathbuilder".  Definitions only; proofs are in PathBuilderProofs.v. *)
From Ygot Require Import Base.Base Path.PathString Tree.Tree Gen.PathStructs.

(* ---------- ygot.ModifyKey ---------- *)

(* func ModifyKey(n *NodePath, name string, value interface{}) { n.keys[name] = value }
   np_keys is the Go map as an association list sorted by key name; the map write is
   Base.al_insert (replace the binding of an existing name, otherwise insert in order). *)
Definition modify_key (n : nodepath) (k : str) (v : scalar) : nodepath :=
  MkNP (np_rel n) (al_insert k v (np_keys n)).

(* `nodepath` does not tell a nil map from an empty one (relPath only takes len).  ModifyKey
   does: a write into a nil map panics.  Every generated constructor passes a map literal; the nil
   map is that of the root (&NodePath{}) or of a hand-made NewNodePath(rel, nil, p). *)
Definition modify_key_go (nilkeys : bool) (n : nodepath) (k : str) (v : scalar) : result nodepath :=
  if nilkeys then Panic else Ok (modify_key n k v).

(* ---------- the generated methods ---------- *)

(* XxxAny() of the builder format: map[string]interface{}{"k1": "*", "k2": "*", ...} *)
Definition any_node (rel : list str) (keys : list str) : nodepath :=
  MkNP rel (map (fun k => (k, wildcard)) keys).

(* n.WithK1(v1).WithK2(v2)... : each call is one ModifyKey on the same node *)
Definition apply_withs (ws : list (str * scalar)) (n : nodepath) : nodepath :=
  fold_left (fun m w => modify_key m (fst w) (snd w)) ws n.

(* the value most recently written to key k by a sequence of With calls *)
Fixpoint last_write (k : str) (ws : list (str * scalar)) : option scalar :=
  match ws with
  | [] => None
  | w :: r =>
      match last_write k r with
      | Some v => Some v
      | None => if str_eqb k (fst w) then Some (snd w) else None
      end
  end.

Definition final_value (k : str) (ws : list (str * scalar)) : scalar :=
  match last_write k ws with Some v => v | None => wildcard end.

(* ---------- a node inside a chain ---------- *)

(* Path structs hold a pointer to their parent: a With call on a node changes what every path
   struct below it resolves to.  In a chain the node is addressed by its index. *)
Fixpoint update_nth {A} (i : nat) (f : A -> A) (l : list A) {struct l} : list A :=
  match l with
  | [] => []
  | x :: r => match i with O => f x :: r | S j => x :: update_nth j f r end
  end.

Definition modify_at (c : chain) (i : nat) (k : str) (v : scalar) : chain :=
  update_nth i (fun n => modify_key n k v) c.

(* ---------- the per-run trace check (stream "pathbuilder") ---------- *)

(* One case is a program run on ONE set of live path structs: the chain is built once, then
   ModifyKey calls (through the generated With methods, or directly) and ResolvePath calls
   alternate.  PSet i k v p : ModifyKey on node i (p: the call panicked).
   PResolve upto dump obs tag : ResolvePath of node upto-1 (the chain prefix of length upto)
   returned obs; dump = the NodePaths of the WHOLE chain read back at that moment; tag = the data
   path of the GoStruct field tags for that prefix. *)
Inductive pbop :=
| PSet (i : nat) (k : str) (v : scalar) (panicked : bool)
| PResolve (upto : nat) (dump : chain) (obs : result gpath) (tag : list str).

Record pbcase := {
  pb_id : nat;
  pb_rootok : bool;
  pb_nil : list bool;          (* per node: its keys map is nil *)
  pb_chain : chain;            (* the NodePaths read back right after the chain was built *)
  pb_ops : list pbop
}.

Definition kv_scalar_eqb (a b : str * scalar) : bool := str_eqb (fst a) (fst b) && scalar_eqb (snd a) (snd b).
Definition nodepath_eqb (a b : nodepath) : bool :=
  list_eqb str_eqb (np_rel a) (np_rel b) && list_eqb kv_scalar_eqb (np_keys a) (np_keys b).
Definition chain_eqb (a b : chain) : bool := list_eqb nodepath_eqb a b.

(* The model state is evolved by the model alone (modify_at from the initial dump); at every
   resolution (a) the real NodePaths equal the model state (ModifyKey wrote what modify_key says and
   nothing else), (b) ResolvePath returned what `resolve` computes from the CURRENT state. *)
Fixpoint run_model (kfmt : N -> str) (env : enum_env) (rootok : bool) (nils : list bool) (c : chain) (ops : list pbop) : bool :=
  match ops with
  | [] => true
  | PSet i k v p :: r =>
      match modify_key_go (nth i nils false) (nth i c (MkNP [] [])) k v with
      | Panic => p && run_model kfmt env rootok nils c r
      | _ => negb p && run_model kfmt env rootok nils (modify_at c i k v) r
      end
  | PResolve upto dump obs _ :: r =>
      chain_eqb c dump
      && result_eqb (list_eqb pelem_eqb) (resolve kfmt env rootok (firstn upto c)) obs
      && run_model kfmt env rootok nils c r
  end.

(* the element names of every resolved path = the tag path of that prefix *)
Fixpoint run_tags (ops : list pbop) : bool :=
  match ops with
  | [] => true
  | PSet _ _ _ _ :: r => run_tags r
  | PResolve _ _ obs tag :: r =>
      match obs with Ok p => list_eqb str_eqb (map ename p) tag | _ => true end && run_tags r
  end.

Definition pbcase_model_ok (kf : list (N * str)) (env : enum_env) (c : pbcase) : bool :=
  run_model (table_lookup kf) env (pb_rootok c) (pb_nil c) (pb_chain c) (pb_ops c).
Definition pbcase_tags_ok (c : pbcase) : bool := run_tags (pb_ops c).

Definition pb_model_mismatches (kf : list (N * str)) (env : enum_env) (cs : list pbcase) : list nat :=
  map pb_id (filter (fun c => negb (pbcase_model_ok kf env c)) cs).
Definition pb_tag_mismatches (cs : list pbcase) : list nat :=
  map pb_id (filter (fun c => negb (pbcase_tags_ok c)) cs).
