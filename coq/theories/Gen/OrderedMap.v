(* OrderedMap.v — model of the code gogen emits for an `ordered-by user` list:
     gogen/ordered_list.go  goOrderedMapTemplate               (type X_OrderedMap and its methods
                            init, Keys, Values, Len, Get, Delete, Append, AppendNew)
                            goOrderedMapParentMethodsTemplate  (GetOrCreateXMap, AppendNewX, AppendX,
                            GetX, DeleteX on the parent struct)
   Definitions only (proofs: OrderedMapProofs.v, statements: Properties/C15.v).

   Abstractions (all type parameters are Section variables, so every theorem holds for every list):
     K      the Go key type of the list (a scalar, or the generated X_Key struct)
     keq    Go == on K
     V      the contents of a list entry struct (a pointer to X is modelled by the value it points to; aliasing between
            the caller's pointer and the stored pointer is outside the model)
     keyof  what Append computes from the entry's key fields: None when a pointer-typed
            ("IsScalarField") key field is nil — the only nil check the template emits; enum
            and union key fields are copied unchecked, so for them keyof never returns None
     T, mk  mk k t is the struct literal &X{key fields from the arguments} built by AppendNew;
            t is an allocation tag used by the correspondence check to name the new pointer.
   The unexported valueMap may be a nil Go map: reads of a nil map behave as reads of the empty
   map and every write is preceded by o.init(), so nil and empty are identified. *)
From Ygot Require Import Base.Base Gen.GoMap.

Section OrderedMap.
  Variables K V T : Type.
  Variable keq : K -> K -> bool.
  Variable keyof : V -> option K.
  Variable mk : K -> T -> V.

  (* type X_OrderedMap struct { keys []K; valueMap map[K]*X } *)
  Record om := mkOm { om_keys : list K; om_vmap : list (K * V) }.
  (* the parent's field `X *X_OrderedMap` (and the receiver `o`): None = nil pointer *)
  Definition ostate := option om.
  Definition om_empty : om := mkOm [] [].       (* &X_OrderedMap{} *)

  Inductive oop :=
  (* methods of *X_OrderedMap, called on the current value of the parent's field (may be nil) *)
  | OAppend (e : option V)        (* None = nil entry pointer *)
  | OAppendNew (k : K) (t : T)
  | ODelete (k : K)
  | OGet (k : K)
  | OKeys
  | OValues
  | OLen
  (* methods of the parent struct *)
  | PGetOrCreateMap
  | PAppendNew (k : K) (t : T)
  | PAppend (e : option V)
  | PGet (k : K)
  | PDelete (k : K).

  Inductive oout :=
  | OErr                                   (* a non-nil error *)
  | OOk                                    (* nil error / nothing of interest returned *)
  | OEntry (e : option V)                  (* a *X result: None = nil *)
  | OBool (b : bool)
  | OKeyList (ks : option (list K))        (* None = nil slice *)
  | OValList (vs : option (list (option V)))
  | OLenN (n : nat).

  (* for i, k := range o.keys { if k == key { o.keys = append(o.keys[:i], o.keys[i+1:]...) ... *)
  Fixpoint remove_first (k : K) (l : list K) : option (list K) :=
    match l with
    | [] => None
    | x :: t =>
        if keq x k then Some t
        else match remove_first k t with Some t' => Some (x :: t') | None => None end
    end.

  Definition m_keys (o : ostate) : oout :=
    match o with
    | None => OKeyList None
    | Some m => OKeyList (Some (om_keys m))            (* append([]K{}, o.keys...) : never nil *)
    end.

  Definition m_values (o : ostate) : oout :=
    match o with
    | None => OValList None
    | Some m =>
        match om_keys m with
        | [] => OValList None                          (* var values []*X stays nil *)
        | ks => OValList (Some (map (fun k => gm_get keq k (om_vmap m)) ks))
        end
    end.

  Definition m_len (o : ostate) : oout :=
    match o with None => OLenN 0 | Some m => OLenN (length (om_keys m)) end.

  Definition m_get (o : ostate) (k : K) : oout :=
    match o with None => OEntry None | Some m => OEntry (gm_get keq k (om_vmap m)) end.

  Definition m_delete (o : ostate) (k : K) : ostate * oout :=
    match o with
    | None => (None, OBool false)
    | Some m =>
        if negb (gm_mem keq k (om_vmap m)) then (o, OBool false)
        else match remove_first k (om_keys m) with
             | Some ks => (Some (mkOm ks (gm_del keq k (om_vmap m))), OBool true)
             | None => (o, OBool false)
             end
    end.

  Definition m_append (o : ostate) (e : option V) : ostate * oout :=
    match o with
    | None => (None, OErr)                              (* "nil ordered map, cannot append" *)
    | Some m =>
        match e with
        | None => (o, OErr)                             (* "nil X" *)
        | Some v =>
            match keyof v with
            | None => (o, OErr)                         (* "invalid nil key" *)
            | Some k =>
                if gm_mem keq k (om_vmap m) then (o, OErr)        (* "duplicate key" *)
                else (Some (mkOm (om_keys m ++ [k]) (gm_set keq k v (om_vmap m))), OOk)
            end
        end
    end.

  Definition m_appendnew (o : ostate) (k : K) (t : T) : ostate * oout :=
    match o with
    | None => (None, OErr)
    | Some m =>
        if gm_mem keq k (om_vmap m) then (o, OErr)
        else (Some (mkOm (om_keys m ++ [k]) (gm_set keq k (mk k t) (om_vmap m))), OEntry (Some (mk k t)))
    end.

  (* if s.X == nil { s.X = &X_OrderedMap{} } *)
  Definition o_alloc (s : ostate) : om := match s with None => om_empty | Some m => m end.

  Definition ostep (s : ostate) (op : oop) : ostate * oout :=
    match op with
    | OAppend e => m_append s e
    | OAppendNew k t => m_appendnew s k t
    | ODelete k => m_delete s k
    | OGet k => (s, m_get s k)
    | OKeys => (s, m_keys s)
    | OValues => (s, m_values s)
    | OLen => (s, m_len s)
    | PGetOrCreateMap => (Some (o_alloc s), OOk)
    | PAppendNew k t => m_appendnew (Some (o_alloc s)) k t
    | PAppend e => m_append (Some (o_alloc s)) e
    | PGet k => (s, m_get s k)                 (* s.X.Get(key) on a possibly nil s.X *)
    | PDelete k => m_delete s k                (* s.X.Delete(key) on a possibly nil s.X *)
    end.

  Fixpoint orun (s : ostate) (ops : list oop) : ostate * list oout :=
    match ops with
    | [] => (s, [])
    | op :: r =>
        let (s1, o) := ostep s op in
        let (s2, os) := orun s1 r in (s2, o :: os)
    end.

  (* ------------------------------------------------------------------ the specification:
     an insertion-ordered map is a list of bindings with pairwise distinct keys; the nil-pointer
     case of the receiver is kept because the methods distinguish it. *)
  Definition aom := list (K * V).
  Definition astate := option aom.

  Definition a_has (k : K) (l : aom) : bool := existsb (fun kv => keq k (fst kv)) l.
  Definition a_del (k : K) (l : aom) : aom := filter (fun kv => negb (keq k (fst kv))) l.
  Definition a_alloc (s : astate) : aom := match s with None => [] | Some l => l end.

  Definition a_append (s : astate) (e : option V) : astate * oout :=
    match s, e with
    | Some l, Some v =>
        match keyof v with
        | Some k => if a_has k l then (s, OErr) else (Some (l ++ [(k, v)]), OOk)
        | None => (s, OErr)
        end
    | _, _ => (s, OErr)
    end.
  Definition a_appendnew (s : astate) (k : K) (t : T) : astate * oout :=
    match s with
    | Some l => if a_has k l then (s, OErr) else (Some (l ++ [(k, mk k t)]), OEntry (Some (mk k t)))
    | None => (s, OErr)
    end.
  Definition a_delete (s : astate) (k : K) : astate * oout :=
    match s with
    | Some l => if a_has k l then (Some (a_del k l), OBool true) else (s, OBool false)
    | None => (s, OBool false)
    end.
  Definition a_get (s : astate) (k : K) : oout := OEntry (gm_get keq k (a_alloc s)).
  Definition a_keys (s : astate) : oout := OKeyList (option_map (map fst) s).
  Definition a_values (s : astate) : oout :=
    match s with
    | Some (b :: l) => OValList (Some (map (fun kv => Some (snd kv)) (b :: l)))
    | _ => OValList None
    end.
  Definition a_len (s : astate) : oout := OLenN (length (a_alloc s)).

  Definition astep (s : astate) (op : oop) : astate * oout :=
    match op with
    | OAppend e => a_append s e
    | OAppendNew k t => a_appendnew s k t
    | ODelete k | PDelete k => a_delete s k
    | OGet k | PGet k => (s, a_get s k)
    | OKeys => (s, a_keys s)
    | OValues => (s, a_values s)
    | OLen => (s, a_len s)
    | PGetOrCreateMap => (Some (a_alloc s), OOk)
    | PAppendNew k t => a_appendnew (Some (a_alloc s)) k t
    | PAppend e => a_append (Some (a_alloc s)) e
    end.

  Fixpoint arun (s : astate) (ops : list oop) : astate * list oout :=
    match ops with
    | [] => (s, [])
    | op :: r =>
        let (s1, o) := astep s op in
        let (s2, os) := arun s1 r in (s2, o :: os)
    end.

  (* the abstraction function: the bindings of the keys slice, in slice order *)
  Definition abs_om (m : om) : aom :=
    flat_map (fun k => match gm_get keq k (om_vmap m) with Some v => [(k, v)] | None => [] end) (om_keys m).
  Definition abs_state (s : ostate) : astate := option_map abs_om s.

  (* the representation invariant *)
  Definition om_inv (m : om) : Prop :=
    NoDup (om_keys m) /\ forall k, In k (om_keys m) <-> gm_mem keq k (om_vmap m) = true.
  Definition ostate_inv (s : ostate) : Prop := match s with None => True | Some m => om_inv m end.

  Definition is_append (op : oop) : bool :=
    match op with OAppend _ | OAppendNew _ _ | PAppend _ | PAppendNew _ _ => true | _ => false end.
End OrderedMap.

Arguments mkOm {K V} om_keys om_vmap.
Arguments om_keys {K V} o.
Arguments om_vmap {K V} o.
Arguments OAppend {K V T} e.
Arguments OAppendNew {K V T} k t.
Arguments ODelete {K V T} k.
Arguments OGet {K V T} k.
Arguments OKeys {K V T}.
Arguments OValues {K V T}.
Arguments OLen {K V T}.
Arguments PGetOrCreateMap {K V T}.
Arguments PAppendNew {K V T} k t.
Arguments PAppend {K V T} e.
Arguments PGet {K V T} k.
Arguments PDelete {K V T} k.
Arguments OErr {K V}.
Arguments OOk {K V}.
Arguments OEntry {K V} e.
Arguments OBool {K V} b.
Arguments OKeyList {K V} ks.
Arguments OValList {K V} vs.
Arguments OLenN {K V} n.
