(* OrderedMapProofs.v — proofs about Gen/OrderedMap.v: the representation invariant, the
   simulation of the generated ordered map by an insertion-ordered list of bindings, and the
   rejection lemmas.  Everything is by induction over arbitrary operation lists. *)
From Ygot Require Import Base.Base Gen.GoMap Gen.GoMapProofs Gen.OrderedMap.

Section OrderedMapProofs.
  Variables K V T : Type.
  Variable keq : K -> K -> bool.
  Variable keyof : V -> option K.
  Variable mk : K -> T -> V.
  Hypothesis keq_spec : forall a b, keq a b = true <-> a = b.

  Notation om := (om K V).
  Notation ostate := (ostate K V).
  Notation oop := (oop K V T).
  Notation ostep := (ostep K V T keq keyof mk).
  Notation astep := (astep K V T keq keyof mk).
  Notation orun := (orun K V T keq keyof mk).
  Notation arun := (arun K V T keq keyof mk).
  Notation abs_om := (abs_om K V keq).
  Notation abs_state := (abs_state K V keq).
  Notation om_inv := (om_inv K V keq).
  Notation ostate_inv := (ostate_inv K V keq).

  Definition absl (ks : list K) (vm : list (K * V)) : list (K * V) :=
    flat_map (fun k => match gm_get keq k vm with Some v => [(k, v)] | None => [] end) ks.

  Lemma abs_om_absl : forall m : om, abs_om m = absl (om_keys m) (om_vmap m).
  Proof. reflexivity. Qed.

  (* ---------- generic list facts ---------- *)
  Lemma NoDup_snoc : forall (l : list K) k, NoDup l -> ~ In k l -> NoDup (l ++ [k]).
  Proof.
    induction l as [|x t IH]; simpl; intros k H N.
    - constructor; [intros []|constructor].
    - inversion H; subst. constructor.
      + rewrite in_app_iff. simpl. intros [A|[A|[]]]; auto.
      + apply IH; auto.
  Qed.

  Lemma filter_id : forall (f : K -> bool) l, (forall x, In x l -> f x = true) -> filter f l = l.
  Proof.
    induction l as [|x t IH]; simpl; intros H; auto.
    rewrite (H x (or_introl eq_refl)). f_equal. apply IH. intros; apply H; auto.
  Qed.

  Lemma NoDup_filter' : forall (f : K -> bool) l, NoDup l -> NoDup (filter f l).
  Proof.
    induction l as [|x t IH]; simpl; intros H; auto.
    inversion H; subst. destruct (f x); auto. constructor; auto.
    rewrite filter_In. tauto.
  Qed.

  Lemma gm_get_app : forall k (a b : list (K * V)),
    gm_get keq k (a ++ b) = match gm_get keq k a with Some v => Some v | None => gm_get keq k b end.
  Proof.
    induction a as [|[k0 v0] t IH]; simpl; intros; auto.
    destruct (keq k k0); auto.
  Qed.

  Lemma a_has_mem : forall k (l : list (K * V)), a_has K V keq k l = gm_mem keq k l.
  Proof.
    intros k l. unfold a_has, gm_mem. induction l as [|[k0 v0] t IH]; simpl; auto.
    destruct (keq k k0); simpl; auto.
  Qed.

  (* ---------- remove_first ---------- *)
  Lemma remove_first_some : forall k l, In k l -> exists l', remove_first K keq k l = Some l'.
  Proof.
    induction l as [|x t IH]; simpl; intros H; [contradiction|].
    destruct (keq x k) eqn:E; eauto.
    destruct H as [H|H]; [subst; rewrite (keq_refl K keq keq_spec) in E; discriminate|].
    destruct (IH H) as [l' ->]. eauto.
  Qed.

  Lemma remove_first_filter : forall k l l', NoDup l -> remove_first K keq k l = Some l' ->
    l' = filter (fun x => negb (keq k x)) l.
  Proof.
    induction l as [|x t IH]; simpl; intros l' N H; [discriminate|].
    inversion N; subst.
    destruct (keq x k) eqn:E.
    - inversion H; subst. apply keq_spec in E. subst x.
      rewrite (keq_refl K keq keq_spec). simpl. symmetry. apply filter_id.
      intros y Hy. apply negb_true_iff. apply (keq_neq K keq keq_spec). intros ->. contradiction.
    - rewrite (keq_sym K keq keq_spec), E. simpl.
      destruct (remove_first K keq k t) eqn:R; [|discriminate]. inversion H; subst.
      f_equal. apply IH; auto.
  Qed.

  (* ---------- the abstraction function ---------- *)
  Lemma absl_app : forall a b vm, absl (a ++ b) vm = absl a vm ++ absl b vm.
  Proof. intros. unfold absl. apply flat_map_app. Qed.

  Lemma absl_ext : forall ks vm vm', (forall k, In k ks -> gm_get keq k vm = gm_get keq k vm') ->
    absl ks vm = absl ks vm'.
  Proof.
    induction ks as [|x t IH]; simpl; intros vm vm' H; auto.
    rewrite (H x (or_introl eq_refl)). f_equal. apply IH. intros; apply H; auto.
  Qed.

  Lemma absl_get : forall k ks vm,
    gm_get keq k (absl ks vm) = if key_in keq k ks then gm_get keq k vm else None.
  Proof.
    induction ks as [|x t IH]; simpl; intros vm; auto.
    rewrite gm_get_app, IH.
    destruct (keq k x) eqn:E; simpl.
    - apply keq_spec in E. subst x.
      destruct (gm_get keq k vm) eqn:G; simpl.
      + rewrite (keq_refl K keq keq_spec). reflexivity.
      + destruct (key_in keq k t); reflexivity.
    - destruct (gm_get keq x vm); simpl; auto. rewrite E. reflexivity.
  Qed.

  Lemma absl_fst : forall ks vm, (forall k, In k ks -> gm_mem keq k vm = true) ->
    map fst (absl ks vm) = ks.
  Proof.
    induction ks as [|x t IH]; simpl; intros vm H; auto.
    rewrite map_app, IH by (intros; apply H; auto).
    specialize (H x (or_introl eq_refl)). unfold gm_mem in H.
    destruct (gm_get keq x vm); [reflexivity|discriminate].
  Qed.

  Lemma absl_snd : forall ks vm, (forall k, In k ks -> gm_mem keq k vm = true) ->
    map (fun kv => Some (snd kv)) (absl ks vm) = map (fun k => gm_get keq k vm) ks.
  Proof.
    induction ks as [|x t IH]; simpl; intros vm H; auto.
    rewrite map_app, IH by (intros; apply H; auto).
    specialize (H x (or_introl eq_refl)). unfold gm_mem in H.
    destruct (gm_get keq x vm); [reflexivity|discriminate].
  Qed.

  Lemma a_del_absl : forall k ks vm,
    a_del K V keq k (absl ks vm) = absl (filter (fun x => negb (keq k x)) ks) vm.
  Proof.
    induction ks as [|x t IH]; simpl; intros vm; auto.
    unfold a_del in *. rewrite filter_app, IH.
    destruct (keq k x) eqn:E; simpl.
    - destruct (gm_get keq x vm); simpl; [rewrite E|]; reflexivity.
    - destruct (gm_get keq x vm); simpl; [rewrite E|]; reflexivity.
  Qed.

  (* ---------- consequences of the invariant ---------- *)
  Lemma inv_key_in : forall m : om, om_inv m -> forall k,
    key_in keq k (om_keys m) = gm_mem keq k (om_vmap m).
  Proof.
    intros m [_ H] k. destruct (gm_mem keq k (om_vmap m)) eqn:E.
    - apply (key_in_In K keq keq_spec). apply H. exact E.
    - apply (key_in_false K keq keq_spec). intros I. apply H in I. congruence.
  Qed.

  Lemma inv_get : forall m : om, om_inv m -> forall k,
    gm_get keq k (abs_om m) = gm_get keq k (om_vmap m).
  Proof.
    intros m I k. rewrite abs_om_absl, absl_get, (inv_key_in m I).
    unfold gm_mem. destruct (gm_get keq k (om_vmap m)); reflexivity.
  Qed.

  Lemma inv_has : forall m : om, om_inv m -> forall k,
    a_has K V keq k (abs_om m) = gm_mem keq k (om_vmap m).
  Proof. intros m I k. rewrite a_has_mem. unfold gm_mem. rewrite inv_get; auto. Qed.

  Lemma inv_all_bound : forall m : om, om_inv m -> forall k, In k (om_keys m) -> gm_mem keq k (om_vmap m) = true.
  Proof. intros m [_ H] k. apply H. Qed.

  Lemma inv_empty : om_inv (om_empty K V).
  Proof. split; simpl; [constructor|]. intros k. unfold gm_mem. simpl. split; [tauto|discriminate]. Qed.

  (* ---------- one step of each mutator ---------- *)
  Lemma push_inv : forall (m : om) k v, om_inv m -> gm_mem keq k (om_vmap m) = false ->
    om_inv (mkOm (om_keys m ++ [k]) (gm_set keq k v (om_vmap m))) /\
    abs_om (mkOm (om_keys m ++ [k]) (gm_set keq k v (om_vmap m))) = abs_om m ++ [(k, v)].
  Proof.
    intros m k v I F. assert (N : ~ In k (om_keys m)).
    { intros A. apply (inv_all_bound m I) in A. congruence. }
    destruct I as [ND HI]. split; [split|]; simpl.
    - apply NoDup_snoc; auto.
    - intros k'. rewrite in_app_iff, (gm_mem_set K V keq keq_spec), orb_true_iff, <- HI. simpl.
      rewrite keq_spec. intuition (subst; auto).
    - rewrite !abs_om_absl. simpl. rewrite absl_app. f_equal.
      + apply absl_ext. intros x Hx. rewrite (gm_get_set K V keq keq_spec).
        destruct (keq x k) eqn:E; auto. apply keq_spec in E. subst. contradiction.
      + unfold absl. cbn [flat_map]. rewrite (gm_get_set K V keq keq_spec), (keq_refl K keq keq_spec). reflexivity.
  Qed.

  Lemma m_append_sim : forall (m : om) e s' o, om_inv m ->
    m_append K V keq keyof (Some m) e = (s', o) ->
    a_append K V keq keyof (Some (abs_om m)) e = (abs_state s', o) /\ ostate_inv s'.
  Proof.
    intros m e s' o I H. unfold m_append in H. unfold a_append.
    destruct e as [v|]; [|inversion H; subst; simpl; auto].
    destruct (keyof v) as [k|]; [|inversion H; subst; simpl; auto].
    rewrite (inv_has m I).
    destruct (gm_mem keq k (om_vmap m)) eqn:F; inversion H; subst; simpl; auto.
    destruct (push_inv m k v I F) as [I' A]. rewrite A. auto.
  Qed.

  Lemma m_appendnew_sim : forall (m : om) k t s' o, om_inv m ->
    m_appendnew K V T keq mk (Some m) k t = (s', o) ->
    a_appendnew K V T keq mk (Some (abs_om m)) k t = (abs_state s', o) /\ ostate_inv s'.
  Proof.
    intros m k t s' o I H. unfold m_appendnew in H. unfold a_appendnew.
    rewrite (inv_has m I).
    destruct (gm_mem keq k (om_vmap m)) eqn:F; inversion H; subst; simpl; auto.
    destruct (push_inv m k (mk k t) I F) as [I' A]. rewrite A. auto.
  Qed.

  Lemma m_delete_sim : forall (m : om) k s' o, om_inv m ->
    m_delete K V keq (Some m) k = (s', o) ->
    a_delete K V keq (Some (abs_om m)) k = (abs_state s', o) /\ ostate_inv s'.
  Proof.
    intros m k s' o I H. unfold m_delete in H. unfold a_delete.
    rewrite (inv_has m I).
    destruct (gm_mem keq k (om_vmap m)) eqn:F; simpl in H; [|inversion H; subst; simpl; auto].
    assert (A : In k (om_keys m)) by (apply I; exact F).
    destruct (remove_first_some k _ A) as [ks R]. rewrite R in H. inversion H; subst. clear H.
    destruct I as [ND HI].
    pose proof (remove_first_filter k _ _ ND R) as E. subst ks.
    simpl. split; [|split; simpl].
    - f_equal. f_equal. rewrite !abs_om_absl. simpl. rewrite a_del_absl.
      apply absl_ext. intros x Hx. apply filter_In in Hx. destruct Hx as [_ Hx].
      rewrite (gm_get_del K V keq keq_spec).
      rewrite (keq_sym K keq keq_spec). apply negb_true_iff in Hx. rewrite Hx. reflexivity.
    - apply NoDup_filter'. exact ND.
    - intros x. rewrite filter_In, (gm_mem_del K V keq keq_spec), andb_true_iff, <- HI.
      rewrite (keq_sym K keq keq_spec x k). tauto.
  Qed.

  (* ---------- the pure methods ---------- *)
  Lemma m_get_sim : forall s k, ostate_inv s -> m_get K V keq s k = a_get K V keq (abs_state s) k.
  Proof.
    intros [m|] k I; simpl; unfold a_get; simpl; auto. rewrite inv_get; auto.
  Qed.

  Lemma m_keys_sim : forall s, ostate_inv s -> m_keys K V s = a_keys K V (abs_state s).
  Proof.
    intros [m|] I; simpl; unfold a_keys; simpl; auto.
    rewrite abs_om_absl, absl_fst; auto. apply inv_all_bound; auto.
  Qed.

  Lemma m_len_sim : forall s, ostate_inv s -> m_len K V s = a_len K V (abs_state s).
  Proof.
    intros [m|] I; simpl; unfold a_len; simpl; auto.
    rewrite <- (absl_fst (om_keys m) (om_vmap m)) at 1 by (apply inv_all_bound; auto).
    rewrite map_length. reflexivity.
  Qed.

  Lemma m_values_sim : forall s, ostate_inv s -> m_values K V keq s = a_values K V (abs_state s).
  Proof.
    intros [m|] I; [|reflexivity].
    pose proof (absl_fst (om_keys m) (om_vmap m) (inv_all_bound m I)) as F.
    pose proof (absl_snd (om_keys m) (om_vmap m) (inv_all_bound m I)) as S.
    unfold m_values, abs_state, option_map, a_values. rewrite abs_om_absl.
    revert F S. destruct (om_keys m) as [|x t]; intros F S; [reflexivity|].
    destruct (absl (x :: t) (om_vmap m)) as [|b l].
    - discriminate F.
    - rewrite S. reflexivity.
  Qed.

  (* ---------- the step lemma ---------- *)
  Lemma abs_alloc : forall s, abs_state (Some (o_alloc K V s)) = Some (a_alloc K V (abs_state s)).
  Proof. intros [m|]; reflexivity. Qed.

  Lemma alloc_inv : forall s, ostate_inv s -> om_inv (o_alloc K V s).
  Proof. intros [m|] I; simpl; auto. apply inv_empty. Qed.

  Lemma step_sim : forall s op s' o, ostate_inv s -> ostep s op = (s', o) ->
    astep (abs_state s) op = (abs_state s', o) /\ ostate_inv s'.
  Proof.
    intros s op s' o I H.
    destruct op; unfold OrderedMap.ostep in H; unfold OrderedMap.astep.
    - (* OAppend *) destruct s as [m|]; [apply (m_append_sim m); auto|].
      simpl in H. inversion H; subst. simpl. destruct e; auto.
    - (* OAppendNew *) destruct s as [m|]; [apply (m_appendnew_sim m); auto|].
      simpl in H. inversion H; subst. simpl. auto.
    - (* ODelete *) destruct s as [m|]; [apply (m_delete_sim m); auto|].
      simpl in H. inversion H; subst. simpl. auto.
    - inversion H; subst. rewrite m_get_sim; auto.
    - inversion H; subst. rewrite m_keys_sim; auto.
    - inversion H; subst. rewrite m_values_sim; auto.
    - inversion H; subst. rewrite m_len_sim; auto.
    - inversion H; subst. rewrite abs_alloc. split; auto. apply alloc_inv; auto.
    - rewrite <- abs_alloc. apply (m_appendnew_sim (o_alloc K V s)); auto. apply alloc_inv; auto.
    - rewrite <- abs_alloc. apply (m_append_sim (o_alloc K V s)); auto. apply alloc_inv; auto.
    - inversion H; subst. rewrite m_get_sim; auto.
    - destruct s as [m|]; [apply (m_delete_sim m); auto|].
      simpl in H. inversion H; subst. simpl. auto.
  Qed.

  Lemma run_sim : forall ops s, ostate_inv s ->
    snd (orun s ops) = snd (arun (abs_state s) ops) /\
    abs_state (fst (orun s ops)) = fst (arun (abs_state s) ops) /\
    ostate_inv (fst (orun s ops)).
  Proof.
    induction ops as [|op r IH]; intros s I; simpl; auto.
    destruct (ostep s op) as [s1 o] eqn:E.
    destruct (step_sim s op s1 o I E) as [A I1]. rewrite A.
    destruct (IH s1 I1) as [B [C D]].
    destruct (orun s1 r) as [s2 os]. destruct (arun (abs_state s1) r) as [a2 aos].
    simpl in *. subst. auto.
  Qed.

  (* ---------- the theorems restated in Properties/C15.v ---------- *)
  Theorem om_run_inv : forall ops, ostate_inv (fst (orun None ops)).
  Proof. intros ops. apply (run_sim ops None). exact I. Qed.

  Theorem om_run_refines : forall ops,
    snd (orun None ops) = snd (arun None ops) /\
    abs_state (fst (orun None ops)) = fst (arun None ops).
  Proof. intros ops. destruct (run_sim ops None I) as [A [B _]]. auto. Qed.

  (* the abstract state reached has pairwise distinct keys, and every binding is keyed by the
     entry's own key whenever it was put there by Append or AppendNew *)
  Theorem om_abs_unique : forall ops l, fst (arun None ops) = Some l -> NoDup (map fst l).
  Proof.
    intros ops l H. destruct (run_sim ops None I) as [_ [B C]]. simpl in B. rewrite <- B in H.
    destruct (fst (orun None ops)) as [m|]; [|discriminate]. simpl in H. inversion H; subst.
    rewrite abs_om_absl, absl_fst; [apply C|apply inv_all_bound; exact C].
  Qed.

  (* Values() never holds a nil entry *)
  Theorem om_values_no_nil : forall s, ostate_inv s -> forall vs,
    m_values K V keq s = OValList (Some vs) -> ~ In None vs.
  Proof.
    intros [m|] I vs H; simpl in H; [|discriminate].
    assert (E : vs = map (fun k => gm_get keq k (om_vmap m)) (om_keys m)).
    { destruct (om_keys m); [discriminate|]. inversion H. reflexivity. }
    subst vs. rewrite in_map_iff. intros [k [G Hk]].
    apply (inv_all_bound m I) in Hk. unfold gm_mem in Hk. rewrite G in Hk. discriminate.
  Qed.

  (* a rejected Append/AppendNew does not change the ordered map; the parent helper may have
     replaced a nil field by an empty map first *)
  Theorem om_reject_no_change : forall s op, is_append K V T op = true ->
    snd (ostep s op) = OErr ->
    fst (ostep s op) = s \/ (s = None /\ fst (ostep s op) = Some (om_empty K V)).
  Proof.
    intros s op A H. destruct op; simpl in A; try discriminate; simpl in *.
    - left. destruct s as [m|]; simpl in *; auto. destruct e as [v|]; auto.
      destruct (keyof v); auto. destruct (gm_mem keq k (om_vmap m)); auto. discriminate.
    - left. destruct s as [m|]; simpl in *; auto.
      destruct (gm_mem keq k (om_vmap m)); auto. discriminate.
    - destruct s as [m|]; simpl in *.
      + left. destruct (gm_mem keq k (om_vmap m)); auto. discriminate.
      + discriminate.
    - destruct s as [m|]; simpl in *.
      + left. destruct e as [v|]; auto. destruct (keyof v); auto.
        destruct (gm_mem keq k (om_vmap m)); auto. discriminate.
      + right. destruct e as [v|]; auto. destruct (keyof v); auto. simpl in H. discriminate.
  Qed.

  (* which Appends are rejected: nil entry, nil key field, key already present *)
  Theorem om_append_rejects : forall (m : om) e, om_inv m ->
    (e = None \/ exists v, e = Some v /\
       (keyof v = None \/ exists k, keyof v = Some k /\ In k (om_keys m))) ->
    ostep (Some m) (OAppend e) = (Some m, OErr) /\ ostep (Some m) (PAppend e) = (Some m, OErr).
  Proof.
    intros m e I H. simpl. destruct H as [->|[v [-> [N|[k [E A]]]]]]; auto.
    - rewrite N. auto.
    - rewrite E. apply (inv_all_bound m I) in A. rewrite A. auto.
  Qed.

  Theorem om_appendnew_rejects : forall (m : om) k t, om_inv m -> In k (om_keys m) ->
    ostep (Some m) (OAppendNew k t) = (Some m, OErr) /\ ostep (Some m) (PAppendNew k t) = (Some m, OErr).
  Proof. intros m k t I A. simpl. apply (inv_all_bound m I) in A. rewrite A. auto. Qed.

  (* and which are accepted: the binding goes to the end *)
  Theorem om_append_accepts : forall (m : om) v k, om_inv m -> keyof v = Some k -> ~ In k (om_keys m) ->
    exists m', ostep (Some m) (OAppend (Some v)) = (Some m', OOk) /\ abs_om m' = abs_om m ++ [(k, v)].
  Proof.
    intros m v k I E N. simpl. rewrite E.
    assert (F : gm_mem keq k (om_vmap m) = false).
    { destruct (gm_mem keq k (om_vmap m)) eqn:F; auto. apply I in F. contradiction. }
    rewrite F. eexists. split; [reflexivity|]. apply push_inv; auto.
  Qed.

  (* outputs are values: running more operations afterwards does not change what earlier
     operations returned *)
  Theorem om_outputs_stable : forall ops ops' s,
    firstn (length ops) (snd (orun s (ops ++ ops'))) = snd (orun s ops).
  Proof.
    induction ops as [|op r IH]; intros ops' s; simpl; auto.
    destruct (ostep s op) as [s1 o]. specialize (IH ops' s1).
    destruct (orun s1 (r ++ ops')) as [s2 os]. destruct (orun s1 r) as [s3 os3].
    simpl in *. f_equal. exact IH.
  Qed.

  (* ---------- every binding is keyed by the entry's own key fields ---------- *)
  Section EntryKeys.
    Hypothesis keyof_mk : forall k t, keyof (mk k t) = Some k.

    Definition a_keyed (s : astate K V) : Prop :=
      match s with None => True | Some l => Forall (fun kv => keyof (snd kv) = Some (fst kv)) l end.

    Lemma a_keyed_alloc : forall s, a_keyed s -> a_keyed (Some (a_alloc K V s)).
    Proof. intros [l|] H; simpl; auto. Qed.

    Lemma a_append_keyed : forall s e, a_keyed s -> a_keyed (fst (a_append K V keq keyof s e)).
    Proof.
      intros [l|] [v|] H; simpl; auto. destruct (keyof v) as [k|] eqn:E; simpl; auto.
      destruct (a_has K V keq k l); simpl; auto. apply Forall_app. split; auto.
    Qed.

    Lemma a_appendnew_keyed : forall s k t, a_keyed s -> a_keyed (fst (a_appendnew K V T keq mk s k t)).
    Proof.
      intros [l|] k t H; simpl; auto. destruct (a_has K V keq k l); simpl; auto.
      apply Forall_app. split; auto. constructor; [simpl; apply keyof_mk|constructor].
    Qed.

    Lemma a_delete_keyed : forall s k, a_keyed s -> a_keyed (fst (a_delete K V keq s k)).
    Proof.
      intros [l|] k H; simpl; auto. destruct (a_has K V keq k l); simpl; auto.
      unfold a_del. simpl in H. rewrite Forall_forall in *. intros x Hx. apply filter_In in Hx. apply H. tauto.
    Qed.

    Lemma astep_keyed : forall s op, a_keyed s -> a_keyed (fst (astep s op)).
    Proof.
      intros s op H. destruct op; unfold OrderedMap.astep; cbn [fst]; auto.
      - apply a_append_keyed; auto.
      - apply a_appendnew_keyed; auto.
      - apply a_delete_keyed; auto.
      - apply a_keyed_alloc; auto.
      - apply a_appendnew_keyed. apply a_keyed_alloc; auto.
      - apply a_append_keyed. apply a_keyed_alloc; auto.
      - apply a_delete_keyed; auto.
    Qed.

    Lemma arun_keyed : forall ops s, a_keyed s -> a_keyed (fst (arun s ops)).
    Proof.
      induction ops as [|op r IH]; intros s H; simpl; auto.
      pose proof (astep_keyed s op H) as H1. destruct (astep s op) as [s1 o]. simpl in H1.
      specialize (IH s1 H1). destruct (arun s1 r). exact IH.
    Qed.

    Theorem om_entry_keys : forall ops m k v, fst (orun None ops) = Some m ->
      gm_get keq k (om_vmap m) = Some v -> keyof v = Some k.
    Proof.
      intros ops m k v H G.
      destruct (run_sim ops None I) as [_ [B C]]. rewrite H in B, C. simpl in B, C.
      pose proof (arun_keyed ops None I) as A. simpl in A. rewrite <- B in A. simpl in A.
      rewrite <- (inv_get m C) in G. rewrite Forall_forall in A.
      assert (In (k, v) (abs_om m)).
      { clear - G keq_spec. induction (abs_om m) as [|[k0 v0] t IH]; simpl in *; [discriminate|].
        destruct (keq k k0) eqn:E; auto. apply keq_spec in E. inversion G; subst. auto. }
      apply (A (k, v)). assumption.
    Qed.

    (* "nil keys are rejected" at the level of YANG values: unset g says that the Go key value
       g holds an unset YANG key leaf (enum value 0, nil union interface) *)
    Variable unset : K -> bool.
    Definition om_key_leaves_set (v : V) : Prop := exists k, keyof v = Some k /\ unset k = false.

    Theorem om_append_rejects_unset_partial : (forall k, unset k = false) ->
      forall s v, snd (ostep s (OAppend (Some v))) = OOk -> om_key_leaves_set v.
    Proof.
      intros U s v H. unfold OrderedMap.ostep, m_append in H. destruct s as [m|]; [|discriminate].
      destruct (keyof v) as [k|] eqn:E; [exists k; auto|discriminate].
    Qed.

    Theorem om_append_accepts_unset : forall k0 t, unset k0 = true ->
      snd (ostep (Some (om_empty K V)) (OAppend (Some (mk k0 t)))) = OOk /\ ~ om_key_leaves_set (mk k0 t).
    Proof.
      intros k0 t U. split.
      - unfold OrderedMap.ostep, m_append. rewrite keyof_mk. reflexivity.
      - intros [k [E F]]. rewrite keyof_mk in E. inversion E; subst. congruence.
    Qed.
  End EntryKeys.
End OrderedMapProofs.
