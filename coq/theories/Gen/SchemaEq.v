(* SchemaEq.v — C27: the schema tree that generated code embeds, relative to the goyang
   compilation of the input modules.

   One term type (ynode) describes a yang.Entry tree with the attributes of the YANG statement it
   was compiled from.  The harness (harness/ydrive/c27_schemadump.go) prints two such terms per
   generated package: the goyang compilation of the input modules (yang.NewModules / Read /
   Process / ToEntry, nothing of ygot involved) and the tree obtained by unzipping the schema
   embedded in the generated package (ygot.GzipToSchema).  `embed` is the transformation ygen
   applies between the two (ygen/codegen.go mappedDefinitions, genutil.TransformEntry,
   ygen/schemaparse.go buildJSONTree/annotateChildren, encoding/json on yang.Entry); it does not
   depend on path compression.  schema_eq_b decides equality of trees.
   Definitions only; proofs are in SchemaEqProofs.v. *)
From Ygot Require Import Base.Base.

(* yang.Number *)
Record ynum := Num { n_neg : bool; n_val : N; n_frac : N }.
Definition yrange := list (ynum * ynum).

(* yang.YangType as serialised (fields tagged json:"-" do not exist here: Base, Root). *)
Inductive ytyp :=
| YT (name : str) (kind : N)                  (* Name, Kind (yang.TypeKind as a number) *)
     (idbase : option (str * list str))       (* IdentityBase: name, names of its Values *)
     (enum bits : list (str * Z))             (* Enum / Bit: name -> value, sorted by name *)
     (units dflt : str) (hasdflt : bool)      (* Units, Default, HasDefault *)
     (frac : N) (len : yrange) (optinst : bool)
     (path : str)                             (* leafref path *)
     (pats posix : list str) (range : yrange)
     (members : list ytyp).                   (* union members *)

(* yang.EntryKind *)
Definition K_leaf : N := 0.
Definition K_dir : N := 1.
Definition K_case : N := 4.
Definition K_choice : N := 5.
(* yang.TriState *)
Definition TS_unset : N := 0.
Definition TS_true : N := 1.
Definition TS_false : N := 2.

Record yattrs := MkA {
  y_name : str;
  y_kind : N;                              (* EntryKind *)
  y_config : N;                            (* TriState, as written (not inherited) *)
  y_mandatory : N;                         (* TriState *)
  y_key : str;                             (* list key statement, space separated *)
  y_listattr : option (N * N * bool);      (* ListAttr: min-elements, max-elements, ordered-by user *)
  y_presence : option str;                 (* presence statement (Extra["presence"]) *)
  y_default : list str;
  y_units : str;
  y_descr : str;
  y_mod : str;                             (* instantiating module (namespace); not serialised *)
  y_prefix : str;                          (* Prefix.Name *)
  y_spath : str                            (* Annotation["schemapath"], [] if absent *)
}.

Inductive ynode := YN (a : yattrs) (ty : option ytyp) (ch : list ynode).   (* ch: Dir, sorted by name *)

Definition node_attrs (n : ynode) : yattrs := match n with YN a _ _ => a end.
Definition node_type (n : ynode) : option ytyp := match n with YN _ t _ => t end.
Definition node_children (n : ynode) : list ynode := match n with YN _ _ c => c end.
Definition node_name (n : ynode) : str := y_name (node_attrs n).
Definition node_kind (n : ynode) : N := y_kind (node_attrs n).

(* ---------- boolean equality ---------- *)

Fixpoint list_eqb {A} (eqb : A -> A -> bool) (a b : list A) : bool :=
  match a, b with
  | [], [] => true
  | x :: a', y :: b' => eqb x y && list_eqb eqb a' b'
  | _, _ => false
  end.
Definition option_eqb {A} (eqb : A -> A -> bool) (a b : option A) : bool :=
  match a, b with
  | None, None => true
  | Some x, Some y => eqb x y
  | _, _ => false
  end.
Definition pair_eqb {A B} (ea : A -> A -> bool) (eb : B -> B -> bool) (a b : A * B) : bool :=
  ea (fst a) (fst b) && eb (snd a) (snd b).

Definition ynum_eqb (a b : ynum) : bool :=
  Bool.eqb (n_neg a) (n_neg b) && (n_val a =? n_val b) && (n_frac a =? n_frac b).
Definition yrange_eqb : yrange -> yrange -> bool := list_eqb (pair_eqb ynum_eqb ynum_eqb).
Definition strs_eqb : list str -> list str -> bool := list_eqb str_eqb.
Definition named_eqb : list (str * Z) -> list (str * Z) -> bool := list_eqb (pair_eqb str_eqb Z.eqb).

Fixpoint ytyp_eqb (a b : ytyp) : bool :=
  match a, b with
  | YT n1 k1 i1 e1 b1 u1 d1 h1 f1 l1 o1 p1 pa1 po1 r1 m1,
    YT n2 k2 i2 e2 b2 u2 d2 h2 f2 l2 o2 p2 pa2 po2 r2 m2 =>
      str_eqb n1 n2 && (k1 =? k2) && option_eqb (pair_eqb str_eqb strs_eqb) i1 i2 &&
      named_eqb e1 e2 && named_eqb b1 b2 && str_eqb u1 u2 && str_eqb d1 d2 && Bool.eqb h1 h2 &&
      (f1 =? f2) && yrange_eqb l1 l2 && Bool.eqb o1 o2 && str_eqb p1 p2 && strs_eqb pa1 pa2 &&
      strs_eqb po1 po2 && yrange_eqb r1 r2 &&
      (fix go (x y : list ytyp) : bool :=
         match x, y with
         | [], [] => true
         | t :: x', u :: y' => ytyp_eqb t u && go x' y'
         | _, _ => false
         end) m1 m2
  end.

Definition listattr_eqb (a b : N * N * bool) : bool :=
  (fst (fst a) =? fst (fst b)) && (snd (fst a) =? snd (fst b)) && Bool.eqb (snd a) (snd b).

Definition yattrs_eqb (a b : yattrs) : bool :=
  str_eqb (y_name a) (y_name b) && (y_kind a =? y_kind b) && (y_config a =? y_config b) &&
  (y_mandatory a =? y_mandatory b) && str_eqb (y_key a) (y_key b) &&
  option_eqb listattr_eqb (y_listattr a) (y_listattr b) &&
  option_eqb str_eqb (y_presence a) (y_presence b) && strs_eqb (y_default a) (y_default b) &&
  str_eqb (y_units a) (y_units b) && str_eqb (y_descr a) (y_descr b) && str_eqb (y_mod a) (y_mod b) &&
  str_eqb (y_prefix a) (y_prefix b) && str_eqb (y_spath a) (y_spath b).

Fixpoint ynode_eqb (a b : ynode) : bool :=
  match a, b with
  | YN a1 t1 c1, YN a2 t2 c2 =>
      yattrs_eqb a1 a2 && option_eqb ytyp_eqb t1 t2 &&
      (fix go (x y : list ynode) : bool :=
         match x, y with
         | [], [] => true
         | n :: x', m :: y' => ynode_eqb n m && go x' y'
         | _, _ => false
         end) c1 c2
  end.

(* ---------- the transformation ---------- *)

Record eopts := {
  o_rootname : str;            (* fakeroot_name; the synthetic root carries it when a fake root is generated *)
  o_prefer_state : bool;       (* CompressBehaviour = PreferOperationalState *)
  o_descriptions : bool;       (* include_descriptions *)
  o_excluded : list str        (* exclude_modules *)
}.

(* strings.Split(s, sep) for a one-rune separator *)
Fixpoint split_on (sep : rune) (s : str) (cur : str) : list str :=
  match s with
  | [] => [rev cur]
  | c :: r => if c =? sep then rev cur :: split_on sep r [] else split_on sep r (c :: cur)
  end.
Definition split (sep : rune) (s : str) : list str := split_on sep s [].

Definition s_config : str := [99; 111; 110; 102; 105; 103].
Definition s_state : str := [115; 116; 97; 116; 101].

(* util.StripModulePrefix *)
Definition strip_prefix (name : str) : str :=
  match split 58 name with
  | [_; b] => b
  | _ => name
  end.
(* util.ReplacePathSuffix(name, "state"); the three-part error case keeps the name *)
Definition replace_suffix (name : str) : str :=
  match split 58 name with
  | [_] => s_state
  | [a; _] => a ++ 58 :: s_state
  | _ => name
  end.

Fixpoint update_nth {A} (n : nat) (f : A -> A) (l : list A) : list A :=
  match l, n with
  | [], _ => []
  | x :: r, O => f x :: r
  | x :: r, S n' => x :: update_nth n' f r
  end.

(* genutil.TransformEntry / pointLeafrefToState on Type.Path *)
Definition point_to_state (p : str) : str :=
  let parts := split 47 p in
  if (length parts <? 3)%nat then p
  else
    let i := (length parts - 2)%nat in
    if str_eqb (strip_prefix (nth i parts [])) s_config
    then join_with 47 (update_nth i replace_suffix parts)
    else p.

Definition typ_point_to_state (t : ytyp) : ytyp :=
  match t with
  | YT n k i e b u d h f l o p pa po r m => YT n k i e b u d h f l o (point_to_state p) pa po r m
  end.

(* yang.Entry.IsDir is Dir != nil; for the statements ToEntry builds it is decided by the kind *)
Definition is_dir_kind (k : N) : bool :=
  (k =? K_dir) || (k =? K_case) || (k =? K_choice) || (k =? 6) || (k =? 7) || (k =? 8).
(* TransformEntry recurses into containers, lists, choices and cases only *)
Definition transform_descends (k : N) : bool := (k =? K_dir) || (k =? K_case) || (k =? K_choice).

(* One entry below a module: `reach` says whether TransformEntry's recursion reaches this entry;
   `pp` is the goyang path of the parent ("/module/..."); keepmod keeps the module names (used by
   C26, where the `module` struct tags are compared with them). *)
Fixpoint xf (o : eopts) (keepmod : bool) (reach : bool) (pp : str) (n : ynode) : ynode :=
  match n with
  | YN a ty ch =>
      let p := pp ++ 47 :: y_name a in
      let a' := {| y_name := y_name a; y_kind := y_kind a; y_config := y_config a;
                   y_mandatory := y_mandatory a; y_key := y_key a; y_listattr := y_listattr a;
                   y_presence := y_presence a; y_default := y_default a; y_units := y_units a;
                   y_descr := if o_descriptions o then y_descr a else [];
                   y_mod := if keepmod then y_mod a else [];
                   y_prefix := y_prefix a;
                   y_spath := if is_dir_kind (y_kind a) then p else [] |} in
      let ty' := if o_prefer_state o && reach && (y_kind a =? K_leaf)
                 then option_map typ_point_to_state ty else ty in
      YN a' ty' (map (xf o keepmod (reach && transform_descends (y_kind a)) p) ch)
  end.

Definition excluded (o : eopts) (m : ynode) : bool := existsb (str_eqb (node_name m)) (o_excluded o).

(* children of the synthetic root: the entries of every non-excluded module, keyed by name *)
Fixpoint insert_node (n : ynode) (l : list ynode) : list ynode :=
  match l with
  | [] => [n]
  | m :: r => match str_cmp (node_name n) (node_name m) with
              | Gt => m :: insert_node n r
              | _ => n :: l
              end
  end.
Definition sort_nodes (l : list ynode) : list ynode := fold_right insert_node [] l.

Definition module_entries (o : eopts) (keepmod : bool) (m : ynode) : list ynode :=
  map (xf o keepmod true (47 :: node_name m)) (node_children m).

Definition root_attrs (o : eopts) : yattrs :=
  {| y_name := o_rootname o; y_kind := K_dir; y_config := TS_unset; y_mandatory := TS_unset; y_key := [];
     y_listattr := None; y_presence := None; y_default := []; y_units := []; y_descr := []; y_mod := [];
     y_prefix := []; y_spath := [47] |}.

Definition embed_gen (o : eopts) (keepmod : bool) (mods : list ynode) : ynode :=
  YN (root_attrs o) None
     (sort_nodes (flat_map (module_entries o keepmod) (filter (fun m => negb (excluded o m)) mods))).

(* what buildJSONTree serialises and GzipToSchema reads back *)
Definition embed (o : eopts) (mods : list ynode) : ynode := embed_gen o false mods.

(* the C27 check of one generated package *)
Definition schema_eq_b (o : eopts) (mods : list ynode) (embedded : ynode) : bool :=
  ynode_eqb (embed o mods) embedded.

Record ecase := { ec_name : str; ec_opts : eopts; ec_mods : list ynode; ec_embedded : ynode }.
Definition ecase_ok (c : ecase) : bool := schema_eq_b (ec_opts c) (ec_mods c) (ec_embedded c).

(* ---------- diagnostics (reports only; the verdict is schema_eq_b) ---------- *)

(* path (names from the root) of the first node at which two trees differ *)
Fixpoint first_diff (fuel : nat) (a b : ynode) : option (list str) :=
  match fuel with
  | O => Some []
  | S fuel' =>
      match a, b with
      | YN a1 t1 c1, YN a2 t2 c2 =>
          if negb (yattrs_eqb a1 a2 && option_eqb ytyp_eqb t1 t2) then Some [y_name a1]
          else
            (fix go (x y : list ynode) : option (list str) :=
               match x, y with
               | [], [] => None
               | n :: x', m :: y' =>
                   match first_diff fuel' n m with
                   | Some p => Some (y_name a1 :: p)
                   | None => go x' y'
                   end
               | n :: _, [] => Some [y_name a1; node_name n]
               | [], m :: _ => Some [y_name a1; node_name m]
               end) c1 c2
      end
  end.
Definition ecase_diag (c : ecase) : option (list str) :=
  first_diff 64 (embed (ec_opts c) (ec_mods c)) (ec_embedded c).
