(* KeyedMapProofs.v — proofs about Gen/KeyedMap.v: every entry is stored under its own key,
   the helper methods refine a finite map K -> option V, and the laws of the individual
   helpers.  Everything is by induction over arbitrary operation lists. *)
From Ygot Require Import Base.Base Gen.GoMap Gen.GoMapProofs Gen.KeyedMap.

Section KeyedMapProofs.
  Variables K V T : Type.
  Variable keq : K -> K -> bool.
  Variable keyof : V -> option K.
  Variable setkey : K -> V -> V.
  Variable mk : K -> T -> V.
  Hypothesis keq_spec : forall a b, keq a b = true <-> a = b.
  (* NewL fills the key fields from its arguments; RenameL overwrites all of them *)
  Hypothesis keyof_mk : forall k t, keyof (mk k t) = Some k.
  Hypothesis keyof_setkey : forall k v, keyof (setkey k v) = Some k.

  Notation kstate := (kstate K V).
  Notation kop := (kop K V T).
  Notation kstep := (kstep K V T keq keyof setkey mk).
  Notation krun := (krun K V T keq keyof setkey mk).
  Notation kastep := (kastep K V T keq keyof setkey mk).
  Notation karun := (karun K V T keq keyof setkey mk).
  Notation klookup := (klookup K V keq).
  Notation k_alloc := (k_alloc K V).

  Let get_set := gm_get_set K V keq keq_spec.
  Let get_del := gm_get_del K V keq keq_spec.
  Let krefl := keq_refl K keq keq_spec.

  Lemma mem_get_none : forall k (m : list (K * V)), gm_mem keq k m = false -> gm_get keq k m = None.
  Proof. intros k m. apply (gm_mem_false K V keq). Qed.

  Lemma mem_get_some : forall k (m : list (K * V)), gm_mem keq k m = true -> exists v, gm_get keq k m = Some v.
  Proof. intros k m. apply (gm_mem_get K V keq). Qed.

  (* ---------- invariant: an entry found under k carries k in its key fields ---------- *)
  Definition kinv (s : kstate) : Prop := forall k e, klookup k s = Some e -> keyof e = Some k.

  Lemma kinv_init : kinv None.
  Proof. intros k e H. discriminate H. Qed.

  Lemma kinv_alloc : forall s, kinv s -> kinv (Some (k_alloc s)).
  Proof. intros [m|] H; exact H. Qed.

  Lemma kinv_set : forall (m : list (K * V)) k v, kinv (Some m) -> keyof v = Some k ->
    kinv (Some (gm_set keq k v m)).
  Proof.
    intros m k v H E k' e. unfold KeyedMap.klookup; cbn [KeyedMap.k_alloc fst snd]. rewrite get_set.
    destruct (keq k' k) eqn:Q.
    - apply keq_spec in Q. subst. intros A. inversion A; subst. exact E.
    - apply H.
  Qed.

  Lemma kinv_del : forall (m : list (K * V)) k, kinv (Some m) -> kinv (Some (gm_del keq k m)).
  Proof.
    intros m k H k' e. unfold KeyedMap.klookup; cbn [KeyedMap.k_alloc fst snd]. rewrite get_del.
    destruct (keq k' k); [discriminate|]. apply H.
  Qed.

  Lemma kstep_inv : forall s op, kinv s -> kinv (fst (kstep s op)).
  Proof.
    intros s op I. destruct op; unfold KeyedMap.kstep.
    - unfold k_new. destruct (gm_mem keq k (k_alloc s)); cbn [fst snd].
      + apply kinv_alloc; auto.
      + apply kinv_set; auto; apply kinv_alloc; auto.
    - unfold k_getorcreate. destruct (gm_get keq k (k_alloc s)); cbn [fst snd]; auto.
      unfold k_new. destruct (gm_mem keq k (k_alloc s)); cbn [fst snd].
      + apply kinv_alloc; auto.
      + apply kinv_set; auto; apply kinv_alloc; auto.
    - exact I.
    - unfold k_append. destruct e as [v|]; auto. destruct (keyof v) as [k|] eqn:E; auto.
      destruct (gm_mem keq k (k_alloc s)); cbn [fst snd].
      + apply kinv_alloc; auto.
      + apply kinv_set; auto; apply kinv_alloc; auto.
    - unfold k_delete. destruct s as [m|]; cbn [fst snd]; auto. apply kinv_del; auto.
    - unfold k_rename. destruct (gm_mem keq new (k_alloc s)); auto.
      destruct (gm_get keq old (k_alloc s)); cbn [fst snd]; auto.
      apply kinv_del. apply kinv_set; auto; apply kinv_alloc; auto.
    - cbn [fst snd]. apply kinv_alloc; auto.
  Qed.

  Lemma krun_inv : forall ops s, kinv s -> kinv (fst (krun s ops)).
  Proof.
    induction ops as [|op r IH]; intros s I; simpl; auto.
    pose proof (kstep_inv s op I) as I1. destruct (kstep s op) as [s1 o]. simpl in I1.
    specialize (IH s1 I1). destruct (krun s1 r). exact IH.
  Qed.

  Theorem km_inv : forall ops k e, klookup k (fst (krun None ops)) = Some e -> keyof e = Some k.
  Proof. intros ops. apply (krun_inv ops None kinv_init). Qed.

  (* ---------- refinement of the finite-map specification ---------- *)
  Definition krel (s : kstate) (f : amap K V) : Prop := forall k, klookup k s = f k.

  Lemma krel_alloc : forall s f, krel s f -> krel (Some (k_alloc s)) f.
  Proof. intros [m|] f H; exact H. Qed.

  Lemma krel_get : forall s f k, krel s f -> gm_get keq k (k_alloc s) = f k.
  Proof. intros s f k H. apply H. Qed.

  Lemma krel_mem : forall s f k, krel s f ->
    gm_mem keq k (k_alloc s) = match f k with Some _ => true | None => false end.
  Proof. intros s f k H. unfold gm_mem. rewrite (krel_get s f k H). reflexivity. Qed.

  Lemma krel_set : forall s f k v, krel s f ->
    krel (Some (gm_set keq k v (k_alloc s))) (am_upd K V keq f k v).
  Proof.
    intros s f k v H k'. unfold KeyedMap.klookup, am_upd; cbn [KeyedMap.k_alloc fst snd]. rewrite get_set.
    destruct (keq k' k); auto. apply H.
  Qed.

  Lemma krel_del : forall (m : list (K * V)) f k, krel (Some m) f ->
    krel (Some (gm_del keq k m)) (am_rem K V keq f k).
  Proof.
    intros m f k H k'. unfold KeyedMap.klookup, am_rem; cbn [KeyedMap.k_alloc fst snd]. rewrite get_del.
    destruct (keq k' k); auto. apply H.
  Qed.

  Lemma krel_rem_nil : forall f k, krel None f -> krel None (am_rem K V keq f k).
  Proof.
    intros f k H k'. unfold am_rem. destruct (keq k' k); [reflexivity|]. apply H.
  Qed.

  Lemma kstep_sim : forall s f op, krel s f ->
    snd (kstep s op) = snd (kastep f op) /\ krel (fst (kstep s op)) (fst (kastep f op)).
  Proof.
    intros s f op R. destruct op; unfold KeyedMap.kstep, KeyedMap.kastep.
    - unfold k_new. rewrite (krel_mem s f k R). destruct (f k); cbn [fst snd]; split; auto;
        first [apply krel_set; auto | apply krel_alloc; auto].
    - unfold k_getorcreate. rewrite (krel_get s f k R). destruct (f k) eqn:E; cbn [fst snd]; auto.
      unfold k_new. rewrite (krel_mem s f k R), E. cbn [fst snd]. split; auto; apply krel_set; auto.
    - unfold k_get. cbn [fst snd]. rewrite (krel_get s f k R). auto.
    - unfold k_append. destruct e as [v|]; cbn [fst snd]; auto.
      destruct (keyof v) as [k|]; cbn [fst snd]; auto.
      rewrite (krel_mem s f k R). destruct (f k); cbn [fst snd]; split; auto;
        first [apply krel_set; auto | apply krel_alloc; auto].
    - unfold k_delete. destruct s as [m|]; cbn [fst snd]; split; auto;
        first [apply krel_del; auto | apply krel_rem_nil; auto].
    - unfold k_rename. rewrite (krel_mem s f new R), (krel_get s f old R).
      destruct (f new); cbn [fst snd]; auto. destruct (f old) as [e|]; cbn [fst snd]; auto. split; auto;
      apply krel_del; apply krel_set; auto.
    - cbn [fst snd]. split; auto; apply krel_alloc; auto.
  Qed.

  Lemma krun_sim : forall ops s f, krel s f ->
    snd (krun s ops) = snd (karun f ops) /\ krel (fst (krun s ops)) (fst (karun f ops)).
  Proof.
    induction ops as [|op r IH]; intros s f R; simpl; auto.
    destruct (kstep_sim s f op R) as [A B].
    destruct (kstep s op) as [s1 o]. destruct (kastep f op) as [f1 o']. simpl in A, B. subst o'.
    destruct (IH s1 f1 B) as [C D].
    destruct (krun s1 r) as [s2 os]. destruct (karun f1 r) as [f2 os']. simpl in *. subst. auto.
  Qed.

  Theorem km_refines : forall ops,
    snd (krun None ops) = snd (karun (am_empty K V) ops) /\
    forall k, klookup k (fst (krun None ops)) = fst (karun (am_empty K V) ops) k.
  Proof. intros ops. apply (krun_sim ops None (am_empty K V)). intros k. reflexivity. Qed.

  (* ---------- laws of the individual helpers ---------- *)
  (* New and Append: rejected exactly on a duplicate key (Append also on a nil key field),
     and a rejected call leaves the field as it was *)
  Theorem km_reject_no_change : forall s op, is_new_or_append K V T op = true ->
    snd (kstep s op) = Err -> fst (kstep s op) = s.
  Proof.
    intros s op A H. destruct op; try discriminate A; unfold KeyedMap.kstep in *.
    - unfold k_new in *. destruct (gm_mem keq k (k_alloc s)) eqn:M; simpl in *; [|discriminate].
      destruct s as [m|]; auto. unfold gm_mem in M. simpl in M. discriminate.
    - unfold k_append in *. destruct e as [v|]; simpl in *; auto.
      destruct (keyof v) as [k|]; simpl in *; auto.
      destruct (gm_mem keq k (k_alloc s)) eqn:M; simpl in *; [|discriminate].
      destruct s as [m|]; auto. unfold gm_mem in M. simpl in M. discriminate.
  Qed.

  Theorem km_new_dup : forall s k t e, klookup k s = Some e -> snd (kstep s (KNew k t)) = Err.
  Proof.
    intros s k t e H. unfold KeyedMap.kstep, k_new, gm_mem. unfold KeyedMap.klookup in H. rewrite H. reflexivity.
  Qed.

  Theorem km_new_fresh : forall s k t, klookup k s = None ->
    snd (kstep s (KNew k t)) = Ok (Some (mk k t)) /\
    klookup k (fst (kstep s (KNew k t))) = Some (mk k t) /\
    forall k', k' <> k -> klookup k' (fst (kstep s (KNew k t))) = klookup k' s.
  Proof.
    intros s k t H. unfold KeyedMap.kstep, k_new, gm_mem. unfold KeyedMap.klookup in *. rewrite H. cbn [fst snd KeyedMap.k_alloc].
    split; auto. split.
    - rewrite get_set, krefl. reflexivity.
    - intros k' N. rewrite get_set. apply (keq_neq K keq keq_spec) in N. rewrite N. reflexivity.
  Qed.

  Theorem km_append_dup : forall s v k e, keyof v = Some k -> klookup k s = Some e ->
    snd (kstep s (KAppend (Some v))) = Err.
  Proof.
    intros s v k e E H. unfold KeyedMap.kstep, k_append, gm_mem. rewrite E.
    unfold KeyedMap.klookup in H. rewrite H. reflexivity.
  Qed.

  Theorem km_append_nil_key : forall s v, keyof v = None -> kstep s (KAppend (Some v)) = (s, Err).
  Proof. intros s v E. unfold KeyedMap.kstep, k_append. rewrite E. reflexivity. Qed.

  Theorem km_append_fresh : forall s v k, keyof v = Some k -> klookup k s = None ->
    snd (kstep s (KAppend (Some v))) = Ok None /\
    klookup k (fst (kstep s (KAppend (Some v)))) = Some v /\
    forall k', k' <> k -> klookup k' (fst (kstep s (KAppend (Some v)))) = klookup k' s.
  Proof.
    intros s v k E H. unfold KeyedMap.kstep, k_append, gm_mem. rewrite E.
    unfold KeyedMap.klookup in *. rewrite H. cbn [fst snd KeyedMap.k_alloc]. split; auto. split.
    - rewrite get_set, krefl. reflexivity.
    - intros k' N. rewrite get_set. apply (keq_neq K keq keq_spec) in N. rewrite N. reflexivity.
  Qed.

  (* GetOrCreate never panics, returns the entry found under k afterwards, and a second call
     returns the same entry without changing anything *)
  Theorem km_getorcreate_idempotent : forall s k t t',
    let r := kstep s (KGetOrCreate k t) in
    (exists v, snd r = Ok (Some v) /\ klookup k (fst r) = Some v) /\
    kstep (fst r) (KGetOrCreate k t') = r.
  Proof.
    intros s k t t'. unfold KeyedMap.kstep, k_getorcreate.
    destruct (gm_get keq k (k_alloc s)) as [v|] eqn:G; cbn [fst snd].
    - split; [exists v; auto|]. rewrite G. reflexivity.
    - unfold k_new, gm_mem. rewrite G. cbn [fst snd KeyedMap.k_alloc].
      unfold KeyedMap.klookup. cbn [KeyedMap.k_alloc]. rewrite get_set, krefl.
      split; [eexists; split; reflexivity|reflexivity].
  Qed.

  Theorem km_getorcreate_keeps_others : forall s k t k', k' <> k ->
    klookup k' (fst (kstep s (KGetOrCreate k t))) = klookup k' s.
  Proof.
    intros s k t k' N. unfold KeyedMap.kstep, k_getorcreate.
    destruct (gm_get keq k (k_alloc s)) as [v|] eqn:G; cbn [fst snd KeyedMap.k_alloc]; auto.
    unfold k_new, gm_mem. rewrite G. cbn [fst snd KeyedMap.k_alloc]. unfold KeyedMap.klookup; cbn [KeyedMap.k_alloc fst snd].
    rewrite get_set. apply (keq_neq K keq keq_spec) in N. rewrite N. reflexivity.
  Qed.

  (* Get never creates entries (and does not even allocate the map) *)
  Theorem km_get_pure : forall s k, kstep s (KGet k) = (s, Ok (klookup k s)).
  Proof. reflexivity. Qed.

  Theorem km_delete : forall s k,
    snd (kstep s (KDelete k)) = Ok None /\
    klookup k (fst (kstep s (KDelete k))) = None /\
    forall k', k' <> k -> klookup k' (fst (kstep s (KDelete k))) = klookup k' s.
  Proof.
    intros s k. unfold KeyedMap.kstep, k_delete. destruct s as [m|]; cbn [fst snd KeyedMap.k_alloc]; auto.
    unfold KeyedMap.klookup; cbn [KeyedMap.k_alloc fst snd]. split; auto. split.
    - rewrite get_del, krefl. reflexivity.
    - intros k' N. rewrite get_del. apply (keq_neq K keq keq_spec) in N. rewrite N. reflexivity.
  Qed.

  (* Rename moves the entry and rewrites its key fields; every other binding is untouched *)
  Theorem km_rename_moves : forall s old new e,
    klookup old s = Some e -> klookup new s = None ->
    let s' := fst (kstep s (KRename old new)) in
    snd (kstep s (KRename old new)) = Ok None /\
    klookup new s' = Some (setkey new e) /\
    klookup old s' = None /\
    forall k, k <> old -> k <> new -> klookup k s' = klookup k s.
  Proof.
    intros s old new e Ho Hn. unfold KeyedMap.kstep, k_rename, gm_mem.
    unfold KeyedMap.klookup in *. rewrite Hn, Ho. cbn [fst snd KeyedMap.k_alloc].
    assert (N : keq new old = false).
    { apply (keq_neq K keq keq_spec). intros ->. congruence. }
    split; auto. split; [|split].
    - rewrite get_del, N, get_set, krefl. reflexivity.
    - rewrite get_del, krefl. reflexivity.
    - intros k A B. rewrite get_del. apply (keq_neq K keq keq_spec) in A, B.
      rewrite A, get_set, B. reflexivity.
  Qed.

  Theorem km_rename_rejects : forall s old new,
    (klookup new s <> None \/ klookup old s = None) -> kstep s (KRename old new) = (s, Err).
  Proof.
    intros s old new H. unfold KeyedMap.kstep, k_rename, gm_mem. unfold KeyedMap.klookup in H.
    destruct (gm_get keq new (k_alloc s)); auto.
    destruct H as [H|H]; [congruence|]. rewrite H. reflexivity.
  Qed.

  (* ---------- "Append rejects nil keys" at the level of YANG values ----------
     unset g: the Go key value g holds an unset YANG key leaf (enum value 0, nil union
     interface).  An accepted entry has all its key leaves set iff no Go key value is unset. *)
  Section Unset.
    Variable unset : K -> bool.
    Definition key_leaves_set (v : V) : Prop := exists k, keyof v = Some k /\ unset k = false.

    Theorem km_append_rejects_unset_partial : (forall k, unset k = false) ->
      forall s v, snd (kstep s (KAppend (Some v))) = Ok None -> key_leaves_set v.
    Proof.
      intros U s v H. unfold KeyedMap.kstep, k_append in H. destruct (keyof v) as [k|] eqn:E.
      - exists k. auto.
      - discriminate H.
    Qed.

    Theorem km_append_accepts_unset : forall k0 t, unset k0 = true ->
      snd (kstep None (KAppend (Some (mk k0 t)))) = Ok None /\ ~ key_leaves_set (mk k0 t).
    Proof.
      intros k0 t U. split.
      - unfold KeyedMap.kstep, k_append. rewrite keyof_mk. reflexivity.
      - intros [k [E F]]. rewrite keyof_mk in E. inversion E; subst. congruence.
    Qed.
  End Unset.

  (* ---------- uniqueness of YANG key values ----------
     yval g: the YANG key value(s) a Go key stands for.  Distinct Go keys are distinct YANG keys
     iff yval is injective — true for scalar keys, key structs of scalars and simple unions;
     false for wrapper unions, whose Go key is the address of the wrapper struct. *)
  Section YangKey.
    Variable Y : Type.
    Variable yval : K -> Y.

    Theorem km_yang_unique_partial : (forall a b, yval a = yval b -> a = b) ->
      forall ops k1 k2 e1 e2,
        klookup k1 (fst (krun None ops)) = Some e1 -> klookup k2 (fst (krun None ops)) = Some e2 ->
        yval k1 = yval k2 -> k1 = k2 /\ e1 = e2.
    Proof.
      intros Inj ops k1 k2 e1 e2 H1 H2 E. apply Inj in E. subst. split; congruence.
    Qed.

    Theorem km_yang_dup_accepted : forall k1 k2 t1 t2, k1 <> k2 -> yval k1 = yval k2 ->
      let s := fst (krun None [KNew k1 t1; KNew k2 t2]) in
      snd (krun None [KNew k1 t1; KNew k2 t2]) = [Ok (Some (mk k1 t1)); Ok (Some (mk k2 t2))] /\
      klookup k1 s = Some (mk k1 t1) /\ klookup k2 s = Some (mk k2 t2).
    Proof.
      intros k1 k2 t1 t2 N E. cbn [KeyedMap.krun].
      pose proof (km_new_fresh None k1 t1 eq_refl) as [A1 [B1 C1]].
      destruct (kstep None (KNew k1 t1)) as [s1 o1] eqn:E1. cbn [fst snd] in *.
      assert (H : klookup k2 s1 = None) by (rewrite C1; auto).
      pose proof (km_new_fresh s1 k2 t2 H) as [A2 [B2 C2]].
      destruct (kstep s1 (KNew k2 t2)) as [s2 o2] eqn:E2. cbn [fst snd] in *.
      subst o1 o2. split; [reflexivity|]. split; auto. rewrite C2; auto.
    Qed.
  End YangKey.

  Theorem km_outputs_stable : forall ops ops' s,
    firstn (length ops) (snd (krun s (ops ++ ops'))) = snd (krun s ops).
  Proof.
    induction ops as [|op r IH]; intros ops' s; simpl; auto.
    destruct (kstep s op) as [s1 o]. specialize (IH ops' s1).
    destruct (krun s1 (r ++ ops')) as [s2 os]. destruct (krun s1 r) as [s3 os3].
    simpl in *. f_equal. exact IH.
  Qed.
End KeyedMapProofs.
