(* DeterminismProofs.v — proofs for Gen/Determinism.v (C25).

   Core lemma: [fold_perm] — folding pairwise-commuting, equivalence-respecting actions over a
   list with distinct keys gives equivalent states for every permutation of the list.  Every
   accepted class of loop body is an instance; [pipeline_deterministic] lifts it to sequences
   of stages by induction. *)
From Coq Require Import Permutation Sorted.
From Ygot Require Import Base.Base Gen.Determinism.

(* ------------------------------------------------------------------ the core lemma *)
Section FoldPerm.
  Context {S B K : Type} (key : B -> K) (R : S -> S -> Prop) (act : B -> S -> S).
  Hypothesis R_equiv : is_equiv R.
  Hypothesis act_resp : respects R act.

  Lemma fold_bind_cons : forall b l s, fold_bind act (b :: l) s = fold_bind act l (act b s).
  Proof. reflexivity. Qed.

  Lemma fold_respects : forall l s s', R s s' -> R (fold_bind act l s) (fold_bind act l s').
  Proof.
    induction l as [|b l IH]; intros s s' H; [exact H|].
    rewrite !fold_bind_cons. apply IH, act_resp, H.
  Qed.

  Lemma commutes_on_perm : forall l l', Permutation l l' -> commutes_on key R act l -> commutes_on key R act l'.
  Proof.
    intros l l' Hp Hc b b' s Hb Hb' Hk. apply Hc; auto.
    - apply Permutation_in with l'; [apply Permutation_sym, Hp | exact Hb].
    - apply Permutation_in with l'; [apply Permutation_sym, Hp | exact Hb'].
  Qed.

  Lemma nodup_keys_perm : forall l l' : list B, Permutation l l' -> NoDup (map key l) -> NoDup (map key l').
  Proof. intros l l' Hp Hn. eapply Permutation_NoDup; [apply Permutation_map, Hp | exact Hn]. Qed.

  Theorem fold_perm : forall l l', Permutation l l' -> NoDup (map key l) -> commutes_on key R act l ->
    forall s s', R s s' -> R (fold_bind act l s) (fold_bind act l' s').
  Proof.
    induction 1 as [|x l l' Hp IH|x y l|l l' l'' Hp1 IH1 Hp2 IH2]; intros Hn Hc s s' Hs.
    - exact Hs.
    - rewrite !fold_bind_cons. apply IH.
      + simpl in Hn. inversion Hn; assumption.
      + intros b b' s0 Hb Hb'. apply Hc; right; assumption.
      + apply act_resp, Hs.
    - rewrite !fold_bind_cons. apply fold_respects.
      apply (equiv_trans R R_equiv) with (act y (act x s)).
      + apply Hc; simpl; auto.
        simpl in Hn. inversion Hn as [|? ? Hnotin _]. intro E. apply Hnotin. simpl. left. exact E.
      + apply act_resp, act_resp, Hs.
    - apply (equiv_trans R R_equiv) with (fold_bind act l' s).
      + apply IH1; auto. apply (equiv_refl R R_equiv).
      + apply IH2; auto.
        * eapply nodup_keys_perm; eauto.
        * eapply commutes_on_perm; eauto.
  Qed.
End FoldPerm.

(* Leibniz equality is an equivalence, and every action respects it *)
Lemma eq_is_equiv : forall S, @is_equiv S eq.
Proof. intro S. split; intros; subst; auto. Qed.
Lemma eq_respects : forall S B (act : B -> S -> S), respects eq act.
Proof. intros S B act b s s' H. subst. reflexivity. Qed.

(* ------------------------------------------------------------------ collect_then_sort *)
Section SortProofs.
  Context {A K : Type} (key : A -> K) (leb : K -> K -> bool).
  Hypothesis leb_total : forall a b, leb a b = true \/ leb b a = true.
  Hypothesis leb_antisym : forall a b, leb a b = true -> leb b a = true -> a = b.
  Hypothesis leb_trans : forall a b c, leb a b = true -> leb b c = true -> leb a c = true.

  Let le (x y : A) : Prop := leb (key x) (key y) = true.

  Lemma insert_sorted_perm : forall x l, Permutation (insert_sorted key leb x l) (x :: l).
  Proof.
    induction l as [|y t IH]; simpl; auto.
    destruct (leb (key x) (key y)); auto.
    apply perm_trans with (y :: x :: t); [apply perm_skip, IH | apply perm_swap].
  Qed.

  Lemma isort_perm : forall l, Permutation (isort key leb l) l.
  Proof.
    induction l as [|x t IH]; simpl; auto.
    apply perm_trans with (x :: isort key leb t); [apply insert_sorted_perm | apply perm_skip, IH].
  Qed.

  Lemma insert_sorted_sorted : forall x l, StronglySorted le l -> StronglySorted le (insert_sorted key leb x l).
  Proof.
    induction l as [|y t IH]; intro Hs; simpl.
    - constructor; constructor.
    - inversion Hs as [|? ? Hst Hall]; subst.
      destruct (leb (key x) (key y)) eqn:E.
      + constructor; [exact Hs|]. constructor; [exact E|].
        eapply Forall_impl; [|exact Hall]. intros z Hz. unfold le in *. eapply leb_trans; eauto.
      + constructor; [apply IH, Hst|].
        eapply Permutation_Forall; [apply Permutation_sym, insert_sorted_perm|].
        constructor; [|exact Hall].
        unfold le. destruct (leb_total (key x) (key y)) as [H|H]; [congruence|exact H].
  Qed.

  Lemma isort_sorted : forall l, StronglySorted le (isort key leb l).
  Proof. induction l; simpl; [constructor | apply insert_sorted_sorted; assumption]. Qed.

  Lemma nodup_key_inj : forall l x y, NoDup (map key l) -> In x l -> In y l -> key x = key y -> x = y.
  Proof.
    induction l as [|z t IH]; intros x y Hn Hx Hy E; [inversion Hx|].
    simpl in Hn. inversion Hn as [|? ? Hnotin Hn']; subst.
    destruct Hx as [Hx|Hx], Hy as [Hy|Hy]; subst; auto.
    - exfalso. apply Hnotin. rewrite E. apply in_map, Hy.
    - exfalso. apply Hnotin. rewrite <- E. apply in_map, Hx.
  Qed.

  (* a list on which the key is injective has exactly one sorted arrangement *)
  Lemma sorted_perm_unique : forall l l', StronglySorted le l -> StronglySorted le l' ->
    Permutation l l' -> (forall x y, In x l -> In y l -> key x = key y -> x = y) -> l = l'.
  Proof.
    induction l as [|x t IH]; intros l' Hs Hs' Hp Hinj.
    - apply Permutation_nil in Hp. auto.
    - destruct l' as [|y t']; [apply Permutation_sym, Permutation_nil in Hp; discriminate|].
      assert (x = y) as E.
      { assert (In x (y :: t')) as Hx by (eapply Permutation_in; [exact Hp | left; reflexivity]).
        assert (In y (x :: t)) as Hy by (eapply Permutation_in; [apply Permutation_sym, Hp | left; reflexivity]).
        destruct Hx as [Hx|Hx]; [auto|]. destruct Hy as [Hy|Hy]; [auto|].
        inversion Hs as [|? ? _ Hall]; subst. inversion Hs' as [|? ? _ Hall']; subst.
        rewrite Forall_forall in Hall, Hall'.
        apply Hinj; [left; reflexivity | right; exact Hy |].
        apply leb_antisym; [apply Hall, Hy | apply Hall', Hx]. }
      subst y. f_equal.
      inversion Hs; inversion Hs'; subst.
      apply IH; auto.
      + eapply Permutation_cons_inv; eauto.
      + intros u v Hu Hv. apply Hinj; right; assumption.
  Qed.

  Lemma sorted_canon_gen : forall l l', Permutation l l' ->
    (forall x y, In x l -> In y l -> key x = key y -> x = y) -> isort key leb l = isort key leb l'.
  Proof.
    intros l l' Hp Hinj. apply sorted_perm_unique; try apply isort_sorted.
    - apply perm_trans with l; [apply isort_perm|].
      apply perm_trans with l'; [exact Hp | apply Permutation_sym, isort_perm].
    - intros x y Hx Hy. apply Hinj; eapply Permutation_in; eauto using isort_perm.
  Qed.

  (* sorting erases the order in which a slice with distinct keys was filled *)
  Theorem sorted_canon : forall l l', Permutation l l' -> NoDup (map key l) ->
    isort key leb l = isort key leb l'.
  Proof.
    intros l l' Hp Hn. apply sorted_canon_gen; auto. intros x y. apply nodup_key_inj, Hn.
  Qed.

  (* ... and of any slice when the whole element is the key (sort.Strings, sort.Ints) *)
  Theorem sorted_canon_inj : (forall x y, key x = key y -> x = y) ->
    forall l l', Permutation l l' -> isort key leb l = isort key leb l'.
  Proof. intros Hinj l l' Hp. apply sorted_canon_gen; auto. Qed.

  Lemma fold_collect : forall {B} (f : B -> A) l init, fold_bind (collect_act f) l init = init ++ map f l.
  Proof.
    intros B f l. induction l as [|b t IH]; intro init; simpl.
    - rewrite app_nil_r. reflexivity.
    - unfold fold_bind in *. simpl. rewrite IH. unfold collect_act. rewrite <- app_assoc. reflexivity.
  Qed.

  (* the loop appends in any order, the sort that follows erases the order *)
  Theorem collect_then_sort_canon : forall {B} (f : B -> A) l l' init,
    Permutation l l' -> NoDup (map key (init ++ map f l)) ->
    isort key leb (fold_bind (collect_act f) l init) = isort key leb (fold_bind (collect_act f) l' init).
  Proof.
    intros B f l l' init Hp Hn. rewrite !fold_collect. apply sorted_canon; auto.
    apply Permutation_app_head, Permutation_map, Hp.
  Qed.
End SortProofs.

(* ------------------------------------------------------------------ map_write_only, insert_or_fail *)
Section AMapProofs.
  Context {K V : Type} (eqb : K -> K -> bool).
  Hypothesis eqb_spec : forall a b, eqb a b = true <-> a = b.

  Lemma amap_eq_equiv : is_equiv (@amap_eq K V eqb).
  Proof. split; unfold amap_eq; intros; congruence. Qed.

  Lemma ains_respects : respects (@amap_eq K V eqb) ains.
  Proof. intros [k v] m m' H k0. simpl. destruct (eqb k0 k); auto. Qed.

  Lemma ains_commutes : forall l, commutes_on fst (@amap_eq K V eqb) ains l.
  Proof.
    intros l [k v] [k' v'] m _ _ Hk k0. simpl in *.
    destruct (eqb k0 k) eqn:E1, (eqb k0 k') eqn:E2; auto.
    apply eqb_spec in E1, E2. congruence.
  Qed.

  (* inserting bindings with distinct keys in any order gives the same map *)
  Theorem map_insert_comm : forall (l l' : list (K * V)) m m', Permutation l l' -> NoDup (map fst l) ->
    amap_eq eqb m m' -> amap_eq eqb (fold_bind ains l m) (fold_bind ains l' m').
  Proof.
    intros l l' m m' Hp Hn Hm.
    apply (fold_perm fst (amap_eq eqb) ains amap_eq_equiv ains_respects l l' Hp Hn (ains_commutes l) m m' Hm).
  Qed.

  Lemma oamap_eq_equiv : is_equiv (@oamap_eq K V eqb).
  Proof.
    split.
    - intros [m|]; simpl; auto. intro; reflexivity.
    - intros [m|] [m'|]; simpl; auto. unfold amap_eq. intros; congruence.
    - intros [m|] [m'|] [m''|]; simpl; auto; try contradiction. unfold amap_eq. intros; congruence.
  Qed.

  Lemma ains_new_respects : respects (@oamap_eq K V eqb) (ains_new eqb).
  Proof.
    intros [k v] [m|] [m'|] H; simpl in *; auto; try contradiction.
    rewrite <- (H k). destruct (alook eqb k m); simpl; auto.
    intro k0. simpl. destruct (eqb k0 k); auto.
  Qed.

  Lemma ains_new_commutes : forall l, commutes_on fst (@oamap_eq K V eqb) (ains_new eqb) l.
  Proof.
    intros l [k v] [k' v'] [m|] _ _ Hk; simpl in *; auto.
    assert (eqb k k' = false) as E1.
    { destruct (eqb k k') eqn:E; auto. apply eqb_spec in E. contradiction. }
    assert (eqb k' k = false) as E2.
    { destruct (eqb k' k) eqn:E; auto. apply eqb_spec in E. congruence. }
    destruct (alook eqb k' m) eqn:L', (alook eqb k m) eqn:L; simpl; rewrite ?E1, ?E2, ?L, ?L'; simpl; auto.
    intro k0. simpl.
    destruct (eqb k0 k) eqn:F1, (eqb k0 k') eqn:F2; auto.
    apply eqb_spec in F1, F2. congruence.
  Qed.

  (* insert-if-absent-else-fail: either every order fails, or every order builds the same map *)
  Theorem insert_new_comm : forall (l l' : list (K * V)) m m', Permutation l l' -> NoDup (map fst l) ->
    oamap_eq eqb m m' -> oamap_eq eqb (fold_bind (ains_new eqb) l m) (fold_bind (ains_new eqb) l' m').
  Proof.
    intros l l' m m' Hp Hn Hm.
    apply (fold_perm fst (oamap_eq eqb) (ains_new eqb) oamap_eq_equiv ains_new_respects l l' Hp Hn (ains_new_commutes l) m m' Hm).
  Qed.
End AMapProofs.

(* ------------------------------------------------------------------ commutative_reduce, error_only *)
Section ReduceProofs.
  Context {B R : Type} (op : R -> R -> R) (g : B -> R).
  Hypothesis op_comm : forall a b, op a b = op b a.
  Hypothesis op_assoc : forall a b c, op (op a b) c = op a (op b c).

  Theorem reduce_comm : forall l l', Permutation l l' ->
    forall acc, fold_bind (reduce_act op g) l acc = fold_bind (reduce_act op g) l' acc.
  Proof.
    induction 1 as [|x l l' Hp IH|x y l|l l' l'' _ IH1 _ IH2]; intro acc; unfold fold_bind in *; simpl; auto.
    - f_equal. unfold reduce_act.
      rewrite !op_assoc. rewrite (op_comm (g y) (g x)). reflexivity.
    - rewrite IH1. apply IH2.
  Qed.
End ReduceProofs.

Theorem error_only_comm : forall {B} (bad : B -> bool) l l', Permutation l l' ->
  forall failed, fold_bind (error_act bad) l failed = fold_bind (error_act bad) l' failed.
Proof.
  intros B bad l l' Hp failed.
  apply (reduce_comm orb bad orb_comm (fun a b c => eq_sym (orb_assoc a b c)) l l' Hp failed).
Qed.

(* ------------------------------------------------------------------ unique_select, singleton *)
Section SelectProofs.
  Context {B V : Type} (guard : B -> bool) (g : B -> V).

  Definition at_most_one (l : list B) : Prop :=
    forall b b', In b l -> In b' l -> guard b = true -> guard b' = true -> b = b'.

  Theorem select_unique : forall l l', Permutation l l' -> at_most_one l ->
    forall x, fold_bind (select_act guard g) l x = fold_bind (select_act guard g) l' x.
  Proof.
    induction 1 as [|b l l' Hp IH|b c l|l l' l'' Hp1 IH1 Hp2 IH2]; intros Hu x; unfold fold_bind in *; simpl; auto.
    - apply IH. intros u u' Hu1 Hu2. apply Hu; right; assumption.
    - f_equal. unfold select_act.
      destruct (guard b) eqn:Gb, (guard c) eqn:Gc; auto.
      assert (c = b) by (apply Hu; simpl; auto). subst. reflexivity.
    - rewrite IH1; auto. apply IH2.
      intros u u' Hu1 Hu2. apply Hu.
      + apply Permutation_in with l'; [apply Permutation_sym, Hp1 | exact Hu1].
      + apply Permutation_in with l'; [apply Permutation_sym, Hp1 | exact Hu2].
  Qed.
End SelectProofs.

Theorem singleton_perm : forall {B} (l l' : list B), length l = 1%nat -> Permutation l l' -> l = l'.
Proof.
  intros B l l' Hl Hp. destruct l as [|x [|y t]]; try discriminate.
  symmetry. apply Permutation_length_1_inv, Hp.
Qed.

(* ------------------------------------------------------------------ independent effects *)
Section ProdProofs.
  Context {B K S1 S2 : Type} (key : B -> K).
  Variables (R1 : S1 -> S1 -> Prop) (R2 : S2 -> S2 -> Prop) (a1 : B -> S1 -> S1) (a2 : B -> S2 -> S2).

  Lemma prod_equiv : is_equiv R1 -> is_equiv R2 -> is_equiv (prod_rel R1 R2).
  Proof.
    intros [r1 s1 t1] [r2 s2 t2]. split; unfold prod_rel.
    - intros [x y]; simpl; auto.
    - intros [x y] [x' y'] [H1 H2]; simpl in *; auto.
    - intros [x y] [x' y'] [x'' y''] [H1 H2] [H3 H4]; simpl in *; eauto.
  Qed.

  Lemma prod_respects : respects R1 a1 -> respects R2 a2 -> respects (prod_rel R1 R2) (prod_act a1 a2).
  Proof. intros H1 H2 b [x y] [x' y'] [Hx Hy]; unfold prod_rel, prod_act; simpl in *; auto. Qed.

  (* a body made of two effects on separate parts of the state commutes if both parts do *)
  Theorem prod_commutes : forall l, commutes_on key R1 a1 l -> commutes_on key R2 a2 l ->
    commutes_on key (prod_rel R1 R2) (prod_act a1 a2) l.
  Proof. intros l H1 H2 b b' [x y] Hb Hb' Hk; unfold prod_rel, prod_act; simpl; auto. Qed.
End ProdProofs.

(* ------------------------------------------------------------------ pipelines *)
Section PipelineProofs.
  Context {S B K : Type} (key : B -> K) (eqS : S -> S -> Prop).
  Hypothesis eqS_equiv : is_equiv eqS.

  Lemma stage_step : forall st, stage_ok key eqS st -> forall s s' l l',
    eqS s s' -> Permutation l (st_src st s) -> Permutation l' (st_src st s') ->
    eqS (st_post st (fold_bind (st_act st) l s)) (st_post st (fold_bind (st_act st) l' s')).
  Proof.
    intros st [[eqM [HE [Hsub [Hresp [Hcomm Hpost]]]]] [Hnd Hsrc]] s s' l l' Hs Hl Hl'.
    apply Hpost.
    assert (Permutation l l') as Hp.
    { apply perm_trans with (st_src st s); auto.
      apply perm_trans with (st_src st s'); auto using Permutation_sym. }
    apply (fold_perm key eqM (st_act st) HE Hresp l l' Hp).
    - eapply nodup_keys_perm; [apply Permutation_sym, Hl | apply Hnd].
    - eapply commutes_on_perm; [apply Permutation_sym, Hl | apply Hcomm].
    - apply Hsub, Hs.
  Qed.

  (* all runs of a pipeline of order-insensitive stages agree, whatever orders the maps yield *)
  Theorem pipeline_deterministic : forall stages, Forall (stage_ok key eqS) stages ->
    forall s s' o o', eqS s s' -> runs stages s o -> runs stages s' o' -> eqS o o'.
  Proof.
    induction stages as [|st rest IH]; intros Hall s s' o o' Hs Hr Hr'.
    - inversion Hr; inversion Hr'; subst. exact Hs.
    - inversion Hall as [|? ? Hst Hrest]; subst.
      inversion Hr as [|? ? ? l ? Hl Hrun]; subst. inversion Hr' as [|? ? ? l' ? Hl' Hrun']; subst.
      eapply IH; [exact Hrest | | exact Hrun | exact Hrun'].
      apply stage_step; auto.
  Qed.

  (* The same, read off the translator's table: if the stage each accepted site stands for is
     order-insensitive (this is what the classifier and the reviewed allow-list are trusted
     for) and the table passes the check, every two runs of the pipeline agree. *)
  Theorem table_deterministic : forall (interp : site -> stage S B) allow,
    (forall x, site_ok allow x = true -> stage_ok key eqS (interp x)) ->
    forall sites, sites_ok allow [] sites = true ->
    forall s s' o o', eqS s s' -> runs (map interp sites) s o -> runs (map interp sites) s' o' -> eqS o o'.
  Proof.
    intros interp allow Hsound sites Hok. apply pipeline_deterministic.
    apply Forall_forall. intros st Hin. apply in_map_iff in Hin. destruct Hin as [x [Hx Hin]]. subst st.
    apply Hsound. unfold sites_ok in Hok. rewrite forallb_forall in Hok. specialize (Hok x Hin).
    change (allowed [] x) with false in Hok. rewrite orb_false_r in Hok. exact Hok.
  Qed.
End PipelineProofs.

(* the decision procedure on the table *)
Lemma sites_ok_spec : forall allow known sites, sites_ok allow known sites = true <->
  forall x, In x sites -> class_accepted (s_class x) = true \/ allowed allow x = true \/ allowed known x = true.
Proof.
  intros allow known sites. unfold sites_ok, site_ok. rewrite forallb_forall. split; intros H x Hin; specialize (H x Hin).
  - rewrite !orb_true_iff in H. tauto.
  - rewrite !orb_true_iff. tauto.
Qed.

Lemma open_sites_spec : forall allow known sites, sites_ok allow known sites = true ->
  forall x, In x (open_sites allow sites) -> allowed known x = true.
Proof.
  intros allow known sites H x Hin. unfold open_sites in Hin. apply filter_In in Hin. destruct Hin as [Hin Hn].
  unfold sites_ok in H. rewrite forallb_forall in H. specialize (H x Hin).
  apply negb_true_iff in Hn. rewrite Hn in H. exact H.
Qed.
