(* PathBuilderProofs.v — C29, builder-style list API: what ResolvePath computes after any sequence
   of in-place key writes (ygot.ModifyKey through the generated With methods). *)
From Ygot Require Import Base.Base Path.PathString Tree.Tree Scalar.Dec Scalar.Base64.
From Ygot Require Import Gen.PathStructs Gen.PathStructsProofs Gen.PathBuilder.

(* ---------- strings ---------- *)

Lemma pb_cmp_refl : forall a, str_cmp a a = Eq.
Proof. induction a as [|x a IH]; simpl; [reflexivity|]. rewrite N.compare_refl. exact IH. Qed.

Lemma pb_cmp_eq : forall a b, str_cmp a b = Eq -> a = b.
Proof.
  induction a as [|x a IH]; intros [|y b]; simpl; try discriminate; [reflexivity|].
  destruct (x ?= y) eqn:E; try discriminate.
  apply N.compare_eq in E. subst y. intros H. f_equal. apply IH. exact H.
Qed.

Lemma pb_cmp_lt_gt : forall a b, str_cmp a b = Lt -> str_cmp b a = Gt.
Proof.
  induction a as [|x a IH]; intros [|y b]; simpl; try discriminate; [reflexivity|].
  rewrite (N.compare_antisym x y). destruct (x ?= y); simpl; try discriminate; auto.
Qed.

Lemma pb_eqb_eq : forall a b, str_eqb a b = true <-> a = b.
Proof.
  induction a as [|x a IH]; intros [|y b]; simpl; split; intros H; try discriminate; try reflexivity.
  - apply andb_true_iff in H. destruct H as [H1 H2]. apply N.eqb_eq in H1. apply IH in H2. subst. reflexivity.
  - injection H as -> ->. rewrite N.eqb_refl. simpl. apply IH. reflexivity.
Qed.

Lemma pb_eqb_refl : forall a, str_eqb a a = true.
Proof. intros a. apply pb_eqb_eq. reflexivity. Qed.

Lemma pb_eqb_neq : forall a b, a <> b -> str_eqb a b = false.
Proof. intros a b H. destruct (str_eqb a b) eqn:E; [|reflexivity]. apply pb_eqb_eq in E. contradiction. Qed.

Lemma pb_cmp_eqb : forall a b, str_cmp a b = Eq <-> str_eqb a b = true.
Proof.
  intros a b. split; intros H.
  - apply pb_cmp_eq in H. subst. apply pb_eqb_refl.
  - apply pb_eqb_eq in H. subst. apply pb_cmp_refl.
Qed.

(* ---------- the map write ---------- *)

Lemma al_find_insert_same : forall {V} k (v : V) l, al_find k (al_insert k v l) = Some v.
Proof.
  intros V k v. induction l as [|[k' v'] l IH]; simpl.
  - rewrite pb_eqb_refl. reflexivity.
  - destruct (str_cmp k k') eqn:E; simpl.
    + rewrite pb_eqb_refl. reflexivity.
    + rewrite pb_eqb_refl. reflexivity.
    + assert (Hn : str_eqb k k' = false).
      { destruct (str_eqb k k') eqn:E2; [|reflexivity]. apply pb_cmp_eqb in E2. congruence. }
      rewrite Hn. exact IH.
Qed.

Lemma al_find_insert_other : forall {V} k k0 (v : V) l, k0 <> k -> al_find k0 (al_insert k v l) = al_find k0 l.
Proof.
  intros V k k0 v l Hne. induction l as [|[k' v'] l IH]; simpl.
  - rewrite (pb_eqb_neq _ _ Hne). reflexivity.
  - destruct (str_cmp k k') eqn:E; simpl.
    + apply pb_cmp_eq in E. subst k'. rewrite (pb_eqb_neq _ _ Hne). reflexivity.
    + rewrite (pb_eqb_neq _ _ Hne). reflexivity.
    + destruct (str_eqb k0 k'); [reflexivity | exact IH].
Qed.

(* writing the same key twice: the second value alone remains *)
Lemma al_insert_twice : forall {V} k (v w : V) l, al_insert k w (al_insert k v l) = al_insert k w l.
Proof.
  intros V k v w. induction l as [|[k' v'] l IH]; simpl.
  - rewrite pb_cmp_refl. reflexivity.
  - destruct (str_cmp k k') eqn:E; simpl.
    + rewrite pb_cmp_refl. reflexivity.
    + rewrite pb_cmp_refl. reflexivity.
    + rewrite E. rewrite IH. reflexivity.
Qed.

Lemma al_insert_nonempty : forall {V} k (v : V) l, al_insert k v l <> [].
Proof. intros V k v [|[k' v'] l]; simpl; [discriminate|]. destruct (str_cmp k k'); discriminate. Qed.

(* key names strictly increasing: what a dumped Go map (and a generated map literal read back) is *)
Fixpoint keys_sorted (l : list str) : Prop :=
  match l with
  | [] => True
  | a :: r => Forall (fun b => str_cmp a b = Lt) r /\ keys_sorted r
  end.

(* a write to a key that is present replaces its value and moves nothing *)
Lemma al_insert_map_present : forall (f : str -> scalar) keys k0 v,
  keys_sorted keys -> In k0 keys ->
  al_insert k0 v (map (fun k => (k, f k)) keys) = map (fun k => (k, if str_eqb k k0 then v else f k)) keys.
Proof.
  intros f. induction keys as [|a keys IH]; intros k0 v Hs Hin; [destruct Hin|].
  destruct Hs as [Hlt Hs]. simpl. destruct Hin as [->|Hin].
  - rewrite pb_cmp_refl, pb_eqb_refl. f_equal. apply map_ext_in. intros k Hk.
    rewrite Forall_forall in Hlt. specialize (Hlt k Hk).
    assert (Hn : str_eqb k k0 = false).
    { destruct (str_eqb k k0) eqn:E; [|reflexivity]. apply pb_eqb_eq in E. subst k. rewrite pb_cmp_refl in Hlt. discriminate. }
    rewrite Hn. reflexivity.
  - rewrite Forall_forall in Hlt. pose proof (Hlt k0 Hin) as Hak. rewrite (pb_cmp_lt_gt _ _ Hak).
    assert (Hn : str_eqb a k0 = false).
    { destruct (str_eqb a k0) eqn:E; [|reflexivity]. apply pb_eqb_eq in E. subst a. rewrite pb_cmp_refl in Hak. discriminate. }
    rewrite Hn. f_equal. apply IH; assumption.
Qed.

(* ---------- sequences of With calls on one node ---------- *)

Lemma apply_withs_rel : forall ws n, np_rel (apply_withs ws n) = np_rel n.
Proof.
  unfold apply_withs. induction ws as [|w ws IH]; intros n; simpl; [reflexivity|]. rewrite IH. reflexivity.
Qed.

Lemma apply_withs_app : forall ws1 ws2 n, apply_withs (ws1 ++ ws2) n = apply_withs ws2 (apply_withs ws1 n).
Proof. intros. unfold apply_withs. apply fold_left_app. Qed.

Lemma apply_withs_keys_gen : forall rel keys ws (f : str -> scalar),
  keys_sorted keys -> (forall w, In w ws -> In (fst w) keys) ->
  np_keys (apply_withs ws (MkNP rel (map (fun k => (k, f k)) keys))) =
  map (fun k => (k, match last_write k ws with Some v => v | None => f k end)) keys.
Proof.
  intros rel keys. induction ws as [|w ws IH]; intros f Hs Hin; [reflexivity|].
  unfold apply_withs. simpl fold_left. unfold modify_key at 2. simpl np_rel. simpl np_keys.
  rewrite (al_insert_map_present f keys (fst w) (snd w) Hs (Hin w (or_introl eq_refl))).
  fold (apply_withs ws (MkNP rel (map (fun k => (k, if str_eqb k (fst w) then snd w else f k)) keys))).
  rewrite (IH (fun k => if str_eqb k (fst w) then snd w else f k) Hs (fun w' H => Hin w' (or_intror H))).
  apply map_ext. intros k. simpl. destruct (last_write k ws); [reflexivity|]. destruct (str_eqb k (fst w)); reflexivity.
Qed.

(* Closed form of the key map of a builder node after ANY sequence of With calls: every key of the
   list is present, in order; its value is the one most recently written, "*" if none was. *)
Theorem builder_keys : forall rel keys ws,
  keys_sorted keys -> (forall w, In w ws -> In (fst w) keys) ->
  np_keys (apply_withs ws (any_node rel keys)) = map (fun k => (k, final_value k ws)) keys.
Proof.
  intros rel keys ws Hs Hin. unfold any_node. rewrite (apply_withs_keys_gen rel keys ws (fun _ => wildcard) Hs Hin).
  reflexivity.
Qed.

Theorem builder_node : forall rel keys ws,
  keys_sorted keys -> (forall w, In w ws -> In (fst w) keys) ->
  apply_withs ws (any_node rel keys) = MkNP rel (map (fun k => (k, final_value k ws)) keys).
Proof.
  intros rel keys ws Hs Hin. pose proof (builder_keys rel keys ws Hs Hin) as Hk.
  pose proof (apply_withs_rel ws (any_node rel keys)) as Hr.
  destruct (apply_withs ws (any_node rel keys)) as [r ks]. simpl in *. subst. reflexivity.
Qed.

(* last write per key wins; other keys are not touched *)
Lemma last_write_app : forall k ws1 ws2,
  last_write k (ws1 ++ ws2) = match last_write k ws2 with Some v => Some v | None => last_write k ws1 end.
Proof.
  intros k. induction ws1 as [|w ws1 IH]; intros ws2; simpl.
  - destruct (last_write k ws2); reflexivity.
  - rewrite IH. destruct (last_write k ws2); reflexivity.
Qed.

Theorem last_write_wins : forall k v ws, last_write k (ws ++ [(k, v)]) = Some v.
Proof. intros. rewrite last_write_app. simpl. rewrite pb_eqb_refl. reflexivity. Qed.

Theorem last_write_other : forall k k' v ws, k <> k' -> last_write k (ws ++ [(k', v)]) = last_write k ws.
Proof. intros k k' v ws H. rewrite last_write_app. simpl. rewrite (pb_eqb_neq _ _ H). reflexivity. Qed.

Theorem final_value_set : forall k v ws, final_value k (ws ++ [(k, v)]) = v.
Proof. intros. unfold final_value. rewrite last_write_wins. reflexivity. Qed.

Theorem final_value_other : forall k k' v ws, k <> k' -> final_value k (ws ++ [(k', v)]) = final_value k ws.
Proof. intros. unfold final_value. rewrite last_write_other by assumption. reflexivity. Qed.

(* a key no With call named is still the wildcard *)
Theorem final_value_unset : forall k ws, (forall w, In w ws -> fst w <> k) -> final_value k ws = wildcard.
Proof.
  intros k ws H. unfold final_value. assert (E : last_write k ws = None).
  { induction ws as [|w ws IH]; [reflexivity|]. simpl. rewrite IH by (intros w' Hw; apply H; right; exact Hw).
    rewrite pb_eqb_neq; [reflexivity|]. intros Heq. apply (H w (or_introl eq_refl)). symmetry. exact Heq. }
  rewrite E. reflexivity.
Qed.

(* re-keying a node: of two writes to one key only the second counts (any node, any state) *)
Theorem rekey_twice : forall ws k v1 v2 n,
  apply_withs (ws ++ [(k, v1); (k, v2)]) n = apply_withs (ws ++ [(k, v2)]) n.
Proof.
  intros. rewrite !apply_withs_app. unfold apply_withs. simpl. unfold modify_key. simpl.
  rewrite al_insert_twice. reflexivity.
Qed.

(* the order of the With calls matters only through the last write per key *)
Theorem builder_order_irrelevant : forall rel keys ws1 ws2,
  keys_sorted keys -> (forall w, In w ws1 -> In (fst w) keys) -> (forall w, In w ws2 -> In (fst w) keys) ->
  (forall k, In k keys -> final_value k ws1 = final_value k ws2) ->
  apply_withs ws1 (any_node rel keys) = apply_withs ws2 (any_node rel keys).
Proof.
  intros rel keys ws1 ws2 Hs H1 H2 Hf. rewrite (builder_node rel keys ws1 Hs H1), (builder_node rel keys ws2 Hs H2).
  f_equal. apply map_ext_in. intros k Hk. rewrite (Hf k Hk). reflexivity.
Qed.

Theorem modify_key_go_nil : forall n k v, modify_key_go true n k v = Panic.
Proof. reflexivity. Qed.
Theorem modify_key_go_ok : forall n k v, modify_key_go false n k v = Ok (modify_key n k v).
Proof. reflexivity. Qed.

(* ---------- relPath after a key write ---------- *)

Section WithOracles.
Variable kfmt : N -> str.
Variable env : enum_env.

(* rendering commutes with the map write (render_key keeps the key name) *)
Lemma render_insert : forall ks kvs k v s,
  mapM (render_key kfmt env) ks = Ok kvs -> key_to_string kfmt env v = Ok s ->
  mapM (render_key kfmt env) (al_insert k v ks) = Ok (al_insert k s kvs).
Proof.
  induction ks as [|[k' v'] ks IH]; intros kvs k v s Hm Hv.
  - injection Hm as <-. simpl. unfold render_key. simpl. rewrite Hv. reflexivity.
  - simpl in Hm. unfold render_key at 1 in Hm. simpl in Hm.
    destruct (key_to_string kfmt env v') as [s'| |] eqn:E'; try discriminate. simpl in Hm.
    destruct (mapM (render_key kfmt env) ks) as [r| |] eqn:Er; try discriminate. simpl in Hm.
    injection Hm as <-. simpl. destruct (str_cmp k k') eqn:Ec.
    + simpl. unfold render_key at 1. simpl. rewrite Hv. simpl. rewrite Er. reflexivity.
    + simpl. unfold render_key at 1. simpl. rewrite Hv. simpl.
      unfold render_key at 1. simpl. rewrite E'. simpl. rewrite Er. reflexivity.
    + simpl. unfold render_key at 1. simpl. rewrite E'. simpl. rewrite (IH r k v s eq_refl Hv). reflexivity.
Qed.

Lemma render_insert_err : forall ks kvs k v,
  mapM (render_key kfmt env) ks = Ok kvs -> key_to_string kfmt env v = Err ->
  mapM (render_key kfmt env) (al_insert k v ks) = Err.
Proof.
  induction ks as [|[k' v'] ks IH]; intros kvs k v Hm Hv.
  - simpl. unfold render_key. simpl. rewrite Hv. reflexivity.
  - simpl in Hm. unfold render_key at 1 in Hm. simpl in Hm.
    destruct (key_to_string kfmt env v') as [s'| |] eqn:E'; try discriminate. simpl in Hm.
    destruct (mapM (render_key kfmt env) ks) as [r| |] eqn:Er; try discriminate.
    simpl. destruct (str_cmp k k') eqn:Ec; simpl; unfold render_key at 1; simpl.
    + rewrite Hv. reflexivity.
    + rewrite Hv. reflexivity.
    + rewrite E'. simpl. rewrite (IH r k v eq_refl Hv). reflexivity.
Qed.

(* relPath of a node after ModifyKey(n, k, v): the same element names; on the last element the
   rendered keys with k bound to the rendering of v and every other binding as before *)
Theorem rel_path_modify_key : forall n init last kvs k v s,
  np_rel n = init ++ [last] ->
  mapM (render_key kfmt env) (np_keys n) = Ok kvs -> key_to_string kfmt env v = Ok s ->
  rel_path kfmt env (modify_key n k v) =
  Ok (map name_elem init ++ [ {| ename := last; ekeys := al_insert k s kvs |} ]).
Proof.
  intros n init last kvs k v s Hr Hm Hv.
  apply (rel_path_keys kfmt env (modify_key n k v) init last (al_insert k s kvs)).
  - simpl. apply al_insert_nonempty.
  - exact Hr.
  - simpl. apply render_insert; assumption.
Qed.

Theorem rel_path_modify_key_find : forall n init last kvs k v s pe,
  np_rel n = init ++ [last] ->
  mapM (render_key kfmt env) (np_keys n) = Ok kvs -> key_to_string kfmt env v = Ok s ->
  rel_path kfmt env (modify_key n k v) = Ok pe ->
  exists e, pe = map name_elem init ++ [e] /\ ename e = last /\
            al_find k (ekeys e) = Some s /\ forall k0, k0 <> k -> al_find k0 (ekeys e) = al_find k0 kvs.
Proof.
  intros n init last kvs k v s pe Hr Hm Hv Hp.
  rewrite (rel_path_modify_key n init last kvs k v s Hr Hm Hv) in Hp. injection Hp as <-.
  eexists. split; [reflexivity|]. simpl. split; [reflexivity|]. split.
  - apply al_find_insert_same.
  - intros k0 Hne. apply al_find_insert_other. exact Hne.
Qed.

(* a value KeyValueAsString rejects makes relPath (hence ResolvePath) fail from then on *)
Theorem rel_path_modify_key_err : forall n kvs k v,
  mapM (render_key kfmt env) (np_keys n) = Ok kvs -> key_to_string kfmt env v = Err ->
  rel_path kfmt env (modify_key n k v) = Err.
Proof.
  intros n kvs k v Hm Hv. unfold rel_path. simpl np_keys.
  destruct (al_insert k v (np_keys n)) as [|x r] eqn:E; [exfalso; exact (al_insert_nonempty _ _ _ E)|].
  rewrite <- E. rewrite (render_insert_err _ kvs k v Hm Hv). reflexivity.
Qed.

(* ---------- frame: a key write inside a chain ---------- *)

Lemma modify_at_app : forall pre n post k v,
  modify_at (pre ++ n :: post) (length pre) k v = pre ++ modify_key n k v :: post.
Proof. unfold modify_at. induction pre as [|x pre IH]; intros; simpl; [reflexivity|]. rewrite IH. reflexivity. Qed.

Lemma update_nth_length : forall {A} (f : A -> A) l i, length (update_nth i f l) = length l.
Proof. intros A f. induction l as [|x l IH]; intros [|i]; simpl; auto. Qed.

Theorem modify_at_length : forall c i k v, length (modify_at c i k v) = length c.
Proof. intros. apply update_nth_length. Qed.

(* only node i changes ... *)
Theorem modify_at_other : forall c i j k v d, j <> i -> nth j (modify_at c i k v) d = nth j c d.
Proof.
  unfold modify_at. induction c as [|x c IH]; intros i j k v d Hne; [reflexivity|].
  destruct i as [|i]; destruct j as [|j]; simpl; try reflexivity; [contradiction|]. apply IH. intros E. apply Hne. f_equal. exact E.
Qed.

Theorem modify_at_same : forall c i k v d, (i < length c)%nat -> nth i (modify_at c i k v) d = modify_key (nth i c d) k v.
Proof.
  unfold modify_at. induction c as [|x c IH]; intros i k v d Hlt; simpl in Hlt; [inversion Hlt|].
  destruct i as [|i]; simpl; [reflexivity|]. apply IH. apply Nat.succ_lt_mono. exact Hlt.
Qed.

(* ... and of node i only the keys: the schema paths of the chain are untouched *)
Theorem modify_at_rel : forall c i k v, map np_rel (modify_at c i k v) = map np_rel c.
Proof.
  unfold modify_at. induction c as [|x c IH]; intros [|i] k v; simpl; try reflexivity. rewrite IH. reflexivity.
Qed.

(* the path structs ABOVE the written node resolve as before *)
Theorem modify_at_firstn : forall c i upto k v, (upto <= i)%nat -> firstn upto (modify_at c i k v) = firstn upto c.
Proof.
  unfold modify_at. induction c as [|x c IH]; intros i upto k v Hle.
  - destruct i; reflexivity.
  - destruct upto as [|u]; [reflexivity|]. destruct i as [|i]; [inversion Hle|].
    simpl. f_equal. apply IH. apply le_S_n. exact Hle.
Qed.

Theorem resolve_above_unchanged : forall ro c i upto k v, (upto <= i)%nat ->
  resolve kfmt env ro (firstn upto (modify_at c i k v)) = resolve kfmt env ro (firstn upto c).
Proof. intros. rewrite modify_at_firstn by assumption. reflexivity. Qed.

(* the written node and everything below it: the resolved path changes in the elements of node i
   only, and there as rel_path of the modified node says *)
Theorem resolve_modify_at : forall pre n post pes1 pes2 k v pe,
  Forall2 (fun m p => rel_path kfmt env m = Ok p) pre pes1 ->
  Forall2 (fun m p => rel_path kfmt env m = Ok p) post pes2 ->
  rel_path kfmt env (modify_key n k v) = Ok pe ->
  resolve kfmt env true (modify_at (pre ++ n :: post) (length pre) k v) = Ok (concat pes1 ++ pe ++ concat pes2).
Proof.
  intros pre n post pes1 pes2 k v pe H1 H2 Hn. rewrite modify_at_app.
  rewrite (resolve_concat kfmt env (pre ++ modify_key n k v :: post) (pes1 ++ pe :: pes2)).
  - rewrite concat_app. reflexivity.
  - apply Forall2_app; [exact H1 | constructor; assumption].
Qed.

(* the element names never change, whatever is written where *)
Theorem resolve_names_modify_at : forall ro c i k v p q,
  resolve kfmt env ro c = Ok p -> resolve kfmt env ro (modify_at c i k v) = Ok q -> map ename q = map ename p.
Proof.
  intros ro c i k v p q Hp Hq.
  rewrite (resolve_names kfmt env ro _ _ Hp), (resolve_names kfmt env ro _ _ Hq), modify_at_rel. reflexivity.
Qed.

(* ---------- the builder API end to end ---------- *)

(* A path through a builder node (XxxAny() at index |pre|) after any sequence ws of With calls on
   that node, in any order, with repetitions, before or after the nodes below it were built:
   ResolvePath gives the data-tree path; the list element carries every key of the list, each with
   the rendering of the value most recently passed for it, "*" for a key never set. *)
Theorem builder_resolve : forall pre post pes1 pes2 init last keys ws kvs,
  keys_sorted keys -> keys <> [] -> (forall w, In w ws -> In (fst w) keys) ->
  Forall2 (fun m p => rel_path kfmt env m = Ok p) pre pes1 ->
  Forall2 (fun m p => rel_path kfmt env m = Ok p) post pes2 ->
  mapM (render_key kfmt env) (map (fun k => (k, final_value k ws)) keys) = Ok kvs ->
  resolve kfmt env true (pre ++ apply_withs ws (any_node (init ++ [last]) keys) :: post) =
  Ok (concat pes1 ++ (map name_elem init ++ [ {| ename := last; ekeys := kvs |} ]) ++ concat pes2).
Proof.
  intros pre post pes1 pes2 init last keys ws kvs Hs Hne Hin H1 H2 Hm.
  rewrite (builder_node (init ++ [last]) keys ws Hs Hin).
  rewrite (resolve_concat kfmt env _ (pes1 ++ (map name_elem init ++ [ {| ename := last; ekeys := kvs |} ]) :: pes2)).
  - rewrite concat_app. reflexivity.
  - apply Forall2_app; [exact H1|]. constructor; [|exact H2].
    apply (rel_path_keys kfmt env _ init last kvs).
    + simpl. destruct keys; [contradiction | discriminate].
    + reflexivity.
    + exact Hm.
Qed.

(* the rendered keys of builder_resolve, key by key *)
Theorem builder_rendered_keys : forall keys ws kvs,
  mapM (render_key kfmt env) (map (fun k => (k, final_value k ws)) keys) = Ok kvs ->
  Forall2 (fun k kv => fst kv = k /\ key_to_string kfmt env (final_value k ws) = Ok (snd kv)) keys kvs.
Proof.
  intros keys ws kvs H. apply (render_keys_spec kfmt env) in H.
  remember (map (fun k => (k, final_value k ws)) keys) as l eqn:El. revert keys El.
  induction H as [|x y l l' Hxy HF IH]; intros keys El.
  - destruct keys; [constructor | discriminate].
  - destruct keys as [|k keys]; [discriminate|]. simpl in El. injection El as -> ->.
    constructor; [exact Hxy | apply IH; reflexivity].
Qed.

(* before any With call: every key "*" *)
Theorem builder_all_wildcards : forall keys,
  mapM (render_key kfmt env) (map (fun k => (k, final_value k [])) keys) = Ok (map (fun k => (k, s_star)) keys).
Proof.
  induction keys as [|k keys IH]; [reflexivity|].
  change (map (fun k0 => (k0, final_value k0 [])) (k :: keys)) with ((k, wildcard) :: map (fun k0 => (k0, final_value k0 [])) keys).
  cbn [mapM]. rewrite IH. reflexivity.
Qed.

End WithOracles.
