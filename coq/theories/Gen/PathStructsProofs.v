(* PathStructsProofs.v — C29: what ResolvePath computes on a chain of NodePaths of any length. *)
From Ygot Require Import Base.Base Path.PathString Tree.Tree Scalar.Dec Scalar.Base64 Gen.PathStructs.

Section WithOracles.
Variable kfmt : N -> str.
Variable env : enum_env.

(* ---------- relPath ---------- *)

Lemma set_last_keys_spec : forall es e ks,
  set_last_keys (es ++ [e]) ks = Ok (es ++ [ {| ename := ename e; ekeys := ks |} ]).
Proof.
  induction es as [|x es IH]; intros e ks; [reflexivity|].
  change ((x :: es) ++ [e]) with (x :: (es ++ [e])).
  cbn [set_last_keys]. destruct (es ++ [e]) eqn:E.
  - destruct es; discriminate.
  - rewrite <- E, IH. reflexivity.
Qed.

Lemma set_last_keys_names : forall es ks r, set_last_keys es ks = Ok r -> map ename r = map ename es.
Proof.
  induction es as [|x es IH]; intros ks r H; [discriminate|].
  cbn [set_last_keys] in H. destruct es as [|y es'].
  - injection H as <-. reflexivity.
  - destruct (set_last_keys (y :: es') ks) as [r'| |] eqn:E; try discriminate.
    simpl in H. injection H as <-. simpl. f_equal. apply (IH ks r' E).
Qed.

Lemma map_ename_name_elem : forall l, map ename (map name_elem l) = l.
Proof. induction l as [|x l IH]; simpl; [reflexivity | rewrite IH; reflexivity]. Qed.

Theorem rel_path_nokeys : forall n, np_keys n = [] -> rel_path kfmt env n = Ok (map name_elem (np_rel n)).
Proof. intros n H. unfold rel_path. rewrite H. reflexivity. Qed.

(* with keys: the names are the relative schema path and the rendered keys sit on the last element *)
Theorem rel_path_keys : forall n init last kvs,
  np_keys n <> [] -> np_rel n = init ++ [last] ->
  mapM (render_key kfmt env) (np_keys n) = Ok kvs ->
  rel_path kfmt env n = Ok (map name_elem init ++ [ {| ename := last; ekeys := kvs |} ]).
Proof.
  intros n init last kvs Hk Hr Hm. unfold rel_path. destruct (np_keys n) as [|k ks] eqn:E; [contradiction|].
  rewrite Hm. simpl. rewrite Hr, map_app. simpl. apply set_last_keys_spec.
Qed.

Theorem rel_path_names : forall n pes, rel_path kfmt env n = Ok pes -> map ename pes = np_rel n.
Proof.
  intros n pes H. unfold rel_path in H. destruct (np_keys n) as [|k ks].
  - injection H as <-. apply map_ename_name_elem.
  - destruct (mapM (render_key kfmt env) (k :: ks)) as [kvs| |]; try discriminate.
    simpl in H. apply set_last_keys_names in H. rewrite H. apply map_ename_name_elem.
Qed.

(* every key of the NodePath appears, under its name, with the string KeyValueAsString gives *)
Theorem render_keys_spec : forall ks kvs,
  mapM (render_key kfmt env) ks = Ok kvs ->
  Forall2 (fun k kv => fst kv = fst k /\ key_to_string kfmt env (snd k) = Ok (snd kv)) ks kvs.
Proof.
  induction ks as [|k ks IH]; intros kvs H.
  - injection H as <-. constructor.
  - simpl in H. unfold render_key at 1 in H.
    destruct (key_to_string kfmt env (snd k)) as [s| |] eqn:E; try discriminate. simpl in H.
    destruct (mapM (render_key kfmt env) ks) as [r| |] eqn:E2; try discriminate. simpl in H.
    injection H as <-. constructor; [split; [reflexivity | exact E] | apply IH; reflexivity].
Qed.

Theorem wildcard_renders_star : key_to_string kfmt env wildcard = Ok s_star.
Proof. reflexivity. Qed.

Theorem rel_path_no_panic : forall n, np_rel n <> [] -> rel_path kfmt env n <> Panic.
Proof.
  intros n Hne. unfold rel_path. destruct (np_keys n) as [|k ks]; [discriminate|].
  assert (Hm : forall l, mapM (render_key kfmt env) l <> Panic).
  { induction l as [|x l IH]; simpl; [discriminate|]. unfold render_key at 1.
    destruct (key_to_string kfmt env (snd x)) eqn:E; simpl; try discriminate.
    - destruct (mapM (render_key kfmt env) l); simpl; try discriminate. exfalso. apply IH. reflexivity.
    - destruct x as [a v]. destruct v; simpl in E; try discriminate.
      destruct (n0 =? 0)%Z; [discriminate|]. destruct (enum_by_num _ _); discriminate. }
  destruct (mapM (render_key kfmt env) (k :: ks)) as [kvs| |] eqn:E; simpl; try discriminate.
  - destruct (np_rel n) as [|a r] using rev_ind; [contradiction|].
    rewrite map_app. simpl. rewrite set_last_keys_spec. discriminate.
  - exfalso. apply (Hm (k :: ks)). exact E.
Qed.

(* ---------- ResolvePath ---------- *)

Lemma resolve_up_ok : forall up pes p,
  Forall2 (fun n pe => rel_path kfmt env n = Ok pe) up pes ->
  resolve_up kfmt env true up p false = Ok (concat (rev pes) ++ p).
Proof.
  induction up as [|n up IH]; intros pes p H; inversion H as [|n' pe up' pes' Hn Hr]; subst.
  - reflexivity.
  - cbn [resolve_up]. rewrite Hn. rewrite (IH pes' (pe ++ p) Hr).
    simpl. rewrite concat_app. simpl. rewrite app_nil_r, <- app_assoc. reflexivity.
Qed.

(* The resolved path of a chain of any length is the concatenation, root side first, of the
   relative paths of its NodePaths. *)
Theorem resolve_concat : forall c pes,
  Forall2 (fun n pe => rel_path kfmt env n = Ok pe) c pes ->
  resolve kfmt env true c = Ok (concat pes).
Proof.
  intros c pes H. unfold resolve.
  assert (H' : Forall2 (fun n pe => rel_path kfmt env n = Ok pe) (rev c) (rev pes)).
  { clear - H. induction H; simpl; [constructor|]. apply Forall2_app; [assumption | repeat constructor; assumption]. }
  rewrite (resolve_up_ok (rev c) (rev pes) [] H'). rewrite rev_involutive, app_nil_r. reflexivity.
Qed.

Lemma resolve_up_failed : forall ro up p, resolve_up kfmt env ro up p true <> Ok p /\
  forall q, resolve_up kfmt env ro up p true <> Ok q.
Proof.
  intros ro. induction up as [|n up IH]; intros p; simpl.
  - split; [discriminate | intros; discriminate].
  - destruct (rel_path kfmt env n); split; try discriminate; intros; try discriminate; apply IH.
Qed.

(* conversely: a successful resolution means every NodePath of the chain rendered *)
Theorem resolve_ok_inv : forall ro c p, resolve kfmt env ro c = Ok p ->
  exists pes, Forall2 (fun n pe => rel_path kfmt env n = Ok pe) c pes /\ p = concat pes.
Proof.
  intros ro c p H. unfold resolve in H.
  assert (G : forall up q r, resolve_up kfmt env ro up q false = Ok r ->
            exists pes, Forall2 (fun n pe => rel_path kfmt env n = Ok pe) up pes /\ r = concat (rev pes) ++ q).
  { induction up as [|n up IH]; intros q r Hr.
    - simpl in Hr. destruct ro; [|discriminate]. injection Hr as <-. exists []. split; [constructor | reflexivity].
    - cbn [resolve_up] in Hr. destruct (rel_path kfmt env n) as [rel| |] eqn:E.
      + destruct (IH _ _ Hr) as [pes [HF ->]]. exists (rel :: pes). split; [constructor; assumption|].
        simpl. rewrite concat_app. simpl. rewrite app_nil_r, <- app_assoc. reflexivity.
      + exfalso. apply (proj2 (resolve_up_failed ro up q) r). exact Hr.
      + discriminate. }
  destruct (G _ _ _ H) as [pes [HF ->]]. exists (rev pes). split.
  - rewrite <- (rev_involutive c). clear - HF. induction HF; simpl; [constructor|].
    apply Forall2_app; [assumption | repeat constructor; assumption].
  - rewrite app_nil_r. reflexivity.
Qed.

(* the element names of the resolved path are the concatenated relative schema paths *)
Theorem resolve_names : forall ro c p, resolve kfmt env ro c = Ok p -> map ename p = concat (map np_rel c).
Proof.
  intros ro c p H. destruct (resolve_ok_inv ro c p H) as [pes [HF ->]]. clear H.
  induction HF as [|n pe c' pes' Hn HF IH]; [reflexivity|].
  simpl. rewrite map_app, IH, (rel_path_names n pe Hn). reflexivity.
Qed.

(* an error in any NodePath makes the whole resolution fail *)
Theorem resolve_err : forall c n, In n c -> rel_path kfmt env n = Err ->
  forall ro p, resolve kfmt env ro c <> Ok p.
Proof.
  intros c n Hin He ro p H. destruct (resolve_ok_inv ro c p H) as [pes [HF _]].
  clear H. induction HF as [|m pe c' pes' Hm HF IH]; [destruct Hin|].
  destruct Hin as [->|Hin]; [congruence | exact (IH Hin)].
Qed.

(* a root path struct whose Id/CustomData are shadowed makes every resolution fail *)
Theorem resolve_bad_root : forall c p, resolve kfmt env false c <> Ok p.
Proof.
  intros c p. unfold resolve. generalize (rev c) (@nil pelem). intros up.
  assert (G : forall fl q, resolve_up kfmt env false up q fl <> Ok p).
  { induction up as [|n up IH]; intros fl q; simpl.
    - destruct fl; discriminate.
    - destruct (rel_path kfmt env n); try discriminate; apply IH. }
  intros q. apply G.
Qed.

End WithOracles.
