(* SchemaEqProofs.v — C27: the boolean tree equality decides equality; facts about `embed`. *)
From Ygot Require Import Base.Base Gen.SchemaEq.

(* ---------- generic reflection lemmas ---------- *)

Lemma str_eqb_eq : forall a b, str_eqb a b = true <-> a = b.
Proof.
  induction a as [|x a IH]; destruct b as [|y b]; simpl; split; intro H; try reflexivity; try discriminate.
  - apply Bool.andb_true_iff in H. destruct H as [H1 H2]. apply N.eqb_eq in H1. apply IH in H2. subst. reflexivity.
  - injection H as -> ->. rewrite N.eqb_refl. simpl. apply IH. reflexivity.
Qed.

Lemma list_eqb_eq : forall A (eqb : A -> A -> bool) (a : list A),
  Forall (fun x => forall y, eqb x y = true <-> x = y) a ->
  forall b, list_eqb eqb a b = true <-> a = b.
Proof.
  intros A eqb a Ha. induction Ha as [|x a Hx Ha IH]; destruct b as [|y b]; simpl; split; intro H;
    try reflexivity; try discriminate.
  - apply Bool.andb_true_iff in H. destruct H as [H1 H2]. apply Hx in H1. apply IH in H2. subst. reflexivity.
  - injection H as -> ->. apply Bool.andb_true_iff. split; [apply Hx | apply IH]; reflexivity.
Qed.

Lemma list_eqb_eq' : forall A (eqb : A -> A -> bool),
  (forall x y, eqb x y = true <-> x = y) -> forall a b, list_eqb eqb a b = true <-> a = b.
Proof.
  intros A eqb H a. apply list_eqb_eq. apply Forall_forall. intros x _. apply H.
Qed.

Lemma option_eqb_eq : forall A (eqb : A -> A -> bool),
  (forall x y, eqb x y = true <-> x = y) -> forall a b, option_eqb eqb a b = true <-> a = b.
Proof.
  intros A eqb H [x|] [y|]; simpl; split; intro E; try reflexivity; try discriminate.
  - apply H in E. subst. reflexivity.
  - injection E as ->. apply H. reflexivity.
Qed.

Lemma pair_eqb_eq : forall A B (ea : A -> A -> bool) (eb : B -> B -> bool),
  (forall x y, ea x y = true <-> x = y) -> (forall x y, eb x y = true <-> x = y) ->
  forall a b, pair_eqb ea eb a b = true <-> a = b.
Proof.
  intros A B ea eb Ha Hb [a1 a2] [b1 b2]. unfold pair_eqb. simpl. rewrite Bool.andb_true_iff, Ha, Hb.
  split; [intros [-> ->]; reflexivity | intros E; injection E as -> ->; split; reflexivity].
Qed.

Lemma bool_eqb_eq : forall a b, Bool.eqb a b = true <-> a = b.
Proof. intros a b. split; [apply Bool.eqb_prop | intros ->; apply Bool.eqb_reflx]. Qed.

Lemma ynum_eqb_eq : forall a b, ynum_eqb a b = true <-> a = b.
Proof.
  intros [n1 v1 f1] [n2 v2 f2]. unfold ynum_eqb. simpl.
  rewrite !Bool.andb_true_iff, bool_eqb_eq, !N.eqb_eq.
  split; [intros [[-> ->] ->]; reflexivity | intros E; injection E as -> -> ->; repeat split].
Qed.

Lemma yrange_eqb_eq : forall a b, yrange_eqb a b = true <-> a = b.
Proof. apply list_eqb_eq'. apply pair_eqb_eq; apply ynum_eqb_eq. Qed.

Lemma strs_eqb_eq : forall a b, strs_eqb a b = true <-> a = b.
Proof. apply list_eqb_eq'. apply str_eqb_eq. Qed.

Lemma named_eqb_eq : forall a b, named_eqb a b = true <-> a = b.
Proof. apply list_eqb_eq'. apply pair_eqb_eq; [apply str_eqb_eq | apply Z.eqb_eq]. Qed.

Lemma listattr_eqb_eq : forall a b, listattr_eqb a b = true <-> a = b.
Proof.
  intros [[a1 a2] a3] [[b1 b2] b3]. unfold listattr_eqb. simpl.
  rewrite !Bool.andb_true_iff, !N.eqb_eq, bool_eqb_eq.
  split; [intros [[-> ->] ->]; reflexivity | intros E; injection E as -> -> ->; repeat split].
Qed.

(* ---------- induction principles for the nested types ---------- *)

Section YtypInd.
  Variable P : ytyp -> Prop.
  Hypothesis H : forall n k i e b u d h f l o p pa po r m,
    Forall P m -> P (YT n k i e b u d h f l o p pa po r m).
  Fixpoint ytyp_ind2 (t : ytyp) : P t :=
    match t with
    | YT n k i e b u d h f l o p pa po r m =>
        H n k i e b u d h f l o p pa po r m
          ((fix go (l : list ytyp) : Forall P l :=
              match l with
              | [] => Forall_nil P
              | x :: r' => Forall_cons x (ytyp_ind2 x) (go r')
              end) m)
    end.
End YtypInd.

Section YnodeInd.
  Variable P : ynode -> Prop.
  Hypothesis H : forall a t ch, Forall P ch -> P (YN a t ch).
  Fixpoint ynode_ind2 (n : ynode) : P n :=
    match n with
    | YN a t ch =>
        H a t ch
          ((fix go (l : list ynode) : Forall P l :=
              match l with
              | [] => Forall_nil P
              | x :: r => Forall_cons x (ynode_ind2 x) (go r)
              end) ch)
    end.
End YnodeInd.

(* the local fixpoints inside ytyp_eqb / ynode_eqb are list_eqb *)
Lemma ytyp_go_eq : forall m1 m2,
  (fix go (x y : list ytyp) : bool :=
     match x, y with
     | [], [] => true
     | t :: x', u :: y' => ytyp_eqb t u && go x' y'
     | _, _ => false
     end) m1 m2 = list_eqb ytyp_eqb m1 m2.
Proof. induction m1 as [|t m1 IH]; destruct m2 as [|u m2]; simpl; try reflexivity. rewrite IH. reflexivity. Qed.

Lemma ynode_go_eq : forall m1 m2,
  (fix go (x y : list ynode) : bool :=
     match x, y with
     | [], [] => true
     | t :: x', u :: y' => ynode_eqb t u && go x' y'
     | _, _ => false
     end) m1 m2 = list_eqb ynode_eqb m1 m2.
Proof. induction m1 as [|t m1 IH]; destruct m2 as [|u m2]; simpl; try reflexivity. rewrite IH. reflexivity. Qed.

Lemma ytyp_eqb_eq : forall a b, ytyp_eqb a b = true <-> a = b.
Proof.
  induction a as [n k i e b u d h f l o p pa po r m IH] using ytyp_ind2.
  intros [n2 k2 i2 e2 b2 u2 d2 h2 f2 l2 o2 p2 pa2 po2 r2 m2].
  cbn [ytyp_eqb]. rewrite ytyp_go_eq.
  rewrite !Bool.andb_true_iff, !str_eqb_eq, !N.eqb_eq, !bool_eqb_eq, !named_eqb_eq, !yrange_eqb_eq, !strs_eqb_eq.
  rewrite (option_eqb_eq _ _ (pair_eqb_eq _ _ _ _ str_eqb_eq strs_eqb_eq)).
  rewrite (list_eqb_eq _ ytyp_eqb m IH).
  split.
  - intros H. decompose [and] H. subst. reflexivity.
  - intros E. injection E. intros. subst. repeat split.
Qed.

Lemma yattrs_eqb_eq : forall a b, yattrs_eqb a b = true <-> a = b.
Proof.
  intros [a1 a2 a3 a4 a5 a6 a7 a8 a9 a10 a11 a12 a13] [b1 b2 b3 b4 b5 b6 b7 b8 b9 b10 b11 b12 b13].
  unfold yattrs_eqb. cbn.
  rewrite !Bool.andb_true_iff, !str_eqb_eq, !N.eqb_eq, strs_eqb_eq.
  rewrite (option_eqb_eq _ _ listattr_eqb_eq), (option_eqb_eq _ _ str_eqb_eq).
  split.
  - intros H. decompose [and] H. subst. reflexivity.
  - intros E. injection E. intros. subst. repeat split.
Qed.

Theorem ynode_eqb_eq : forall a b, ynode_eqb a b = true <-> a = b.
Proof.
  induction a as [a t ch IH] using ynode_ind2. intros [a2 t2 ch2].
  cbn [ynode_eqb]. rewrite ynode_go_eq.
  rewrite !Bool.andb_true_iff, yattrs_eqb_eq, (option_eqb_eq _ _ ytyp_eqb_eq), (list_eqb_eq _ ynode_eqb ch IH).
  split.
  - intros [[-> ->] ->]. reflexivity.
  - intros E. injection E as -> -> ->. repeat split.
Qed.

(* ---------- the checker ---------- *)

Theorem schema_eq_b_spec : forall o mods e, schema_eq_b o mods e = true <-> embed o mods = e.
Proof. intros. unfold schema_eq_b. apply ynode_eqb_eq. Qed.

Theorem ecases_lift : forall cs, forallb ecase_ok cs = true ->
  forall c, In c cs -> embed (ec_opts c) (ec_mods c) = ec_embedded c.
Proof.
  intros cs H c Hc. rewrite forallb_forall in H. apply schema_eq_b_spec. apply (H c Hc).
Qed.

(* the diagnostic agrees with the verdict on a positive answer *)
Lemma first_diff_refl : forall fuel a, (0 < fuel)%nat -> first_diff fuel a a = None \/ exists p, first_diff fuel a a = Some p.
Proof. intros. destruct (first_diff fuel a a); [right; eauto | left; reflexivity]. Qed.

(* ---------- what `embed` does and does not touch ---------- *)

(* the transformation keeps names, kinds, keys, config, list attributes, presence, defaults *)
Theorem xf_attrs : forall o km reach pp n,
  let a := node_attrs n in let a' := node_attrs (xf o km reach pp n) in
  y_name a' = y_name a /\ y_kind a' = y_kind a /\ y_config a' = y_config a /\ y_mandatory a' = y_mandatory a /\
  y_key a' = y_key a /\ y_listattr a' = y_listattr a /\ y_presence a' = y_presence a /\
  y_default a' = y_default a /\ y_units a' = y_units a /\ y_prefix a' = y_prefix a.
Proof. intros o km reach pp [a t ch]. cbn. repeat split. Qed.

Theorem xf_children : forall o km reach pp n,
  map node_name (node_children (xf o km reach pp n)) = map node_name (node_children n).
Proof.
  intros o km reach pp [a t ch]. cbn. rewrite map_map. apply map_ext. intros [a' t' ch']. reflexivity.
Qed.

(* leaf types are copied verbatim unless operational state is preferred ... *)
Theorem xf_type_plain : forall o km reach pp n,
  o_prefer_state o = false -> node_type (xf o km reach pp n) = node_type n.
Proof. intros o km reach pp [a t ch] H. cbn. rewrite H. reflexivity. Qed.

(* ... in which case only the leafref path of a leaf changes *)
Theorem xf_type_state : forall o km reach pp n t,
  node_type n = Some t ->
  exists t', node_type (xf o km reach pp n) = Some t' /\
    match t, t' with
    | YT n1 k1 i1 e1 b1 u1 d1 h1 f1 l1 o1 p1 pa1 po1 r1 m1, YT n2 k2 i2 e2 b2 u2 d2 h2 f2 l2 o2 p2 pa2 po2 r2 m2 =>
        n1 = n2 /\ k1 = k2 /\ i1 = i2 /\ e1 = e2 /\ b1 = b2 /\ u1 = u2 /\ d1 = d2 /\ h1 = h2 /\ f1 = f2 /\ l1 = l2 /\
        o1 = o2 /\ pa1 = pa2 /\ po1 = po2 /\ r1 = r2 /\ m1 = m2 /\ (p2 = p1 \/ p2 = point_to_state p1)
    end.
Proof.
  intros o km reach pp [a ty ch] t H. cbn in H. subst ty. cbn.
  destruct (o_prefer_state o && reach && (y_kind a =? K_leaf)); cbn.
  - exists (typ_point_to_state t). split; [reflexivity|]. destruct t. cbn. repeat split. right. reflexivity.
  - exists t. split; [reflexivity|]. destruct t. repeat split. left. reflexivity.
Qed.

(* a path that does not name a config container is left alone *)
Lemma point_to_state_short : forall p, (length (split 47%N p) < 3)%nat -> point_to_state p = p.
Proof.
  intros p H. unfold point_to_state. apply Nat.ltb_lt in H. rewrite H. reflexivity.
Qed.

(* module names and annotations: erased / computed *)
Theorem xf_erases_module : forall o reach pp n, y_mod (node_attrs (xf o false reach pp n)) = [].
Proof. intros o reach pp [a t ch]. reflexivity. Qed.

Theorem embed_root : forall o mods,
  node_name (embed o mods) = o_rootname o /\ node_kind (embed o mods) = K_dir /\ node_type (embed o mods) = None.
Proof. intros. repeat split. Qed.

(* every root child of the embedded tree is the image of a top-level entry of a non-excluded module *)
Lemma insert_node_in : forall n l x, In x (insert_node n l) <-> x = n \/ In x l.
Proof.
  intros n l x. induction l as [|m r IH].
  - simpl. split; [intros [H|[]]; left; auto | intros [H|[]]; left; auto].
  - cbn [insert_node]. destruct (str_cmp (node_name n) (node_name m)).
    + simpl. split; [intros [H|H]; [left; auto | right; exact H] | intros [H|H]; [left; auto | right; exact H]].
    + simpl. split; [intros [H|H]; [left; auto | right; exact H] | intros [H|H]; [left; auto | right; exact H]].
    + cbn [In]. rewrite IH. split.
      * intros [H|[H|H]]; [right; left; exact H | left; exact H | right; right; exact H].
      * intros [H|[H|H]]; [right; left; exact H | left; exact H | right; right; exact H].
Qed.

Lemma sort_nodes_in : forall l x, In x (sort_nodes l) <-> In x l.
Proof.
  induction l as [|n l IH]; intros x; simpl; [tauto|].
  unfold sort_nodes in *. simpl. rewrite insert_node_in, IH. split; intros [H|H]; auto.
Qed.

Theorem embed_root_children : forall o mods c,
  In c (node_children (embed o mods)) <->
  exists m e, In m mods /\ excluded o m = false /\ In e (node_children m) /\
              c = xf o false true (47 :: node_name m) e.
Proof.
  intros o mods c. cbn. rewrite sort_nodes_in, in_flat_map. split.
  - intros [m [Hm Hc]]. apply filter_In in Hm. destruct Hm as [Hm Hx].
    unfold module_entries in Hc. apply in_map_iff in Hc. destruct Hc as [e [He Hin]].
    exists m, e. repeat split; auto. destruct (excluded o m); [discriminate | reflexivity].
  - intros [m [e [Hm [Hx [He Hc]]]]]. exists m. split.
    + apply filter_In. split; auto. rewrite Hx. reflexivity.
    + unfold module_entries. apply in_map_iff. exists e. auto.
Qed.
