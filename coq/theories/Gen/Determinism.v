(* Determinism.v — C25 "code generation is deterministic": the model.

   Go randomises the iteration order of `for k, v := range m` over a map per loop execution.
   A generator run is modelled as a sequence of STAGES; a stage reads the bindings of some map
   out of the current state, folds a loop body over them IN SOME ORDER (any permutation: that is
   the only nondeterminism the model has) and then applies a deterministic continuation
   (e.g. sort.Strings of the slice the loop filled).  Loop bodies are ACTIONS on an abstract
   state; the effect algebra below gives the canonical action of every class of loop body the
   translator /verif/harness/maprange accepts, and DeterminismProofs.v proves that each of them
   is insensitive to the order (up to the stated equivalence of states).

   The second half of the file is the table format of the translator (one [site] per map-range
   loop of the generators' source code, regenerated from /repo on every run) and the decision
   procedure [sites_ok] that is evaluated on it.

   Definitions only; proofs are in DeterminismProofs.v. *)
From Coq Require Import Permutation.
From Ygot Require Import Base.Base.

(* ------------------------------------------------------------------ folds over bindings *)

(* `for _, b := range l { s = act b s }` *)
Definition fold_bind {S B : Type} (act : B -> S -> S) (l : list B) (s : S) : S :=
  fold_left (fun a b => act b a) l s.

(* ------------------------------------------------------------------ the effect algebra *)

(* collect_then_sort: `sl = append(sl, f b)` ... `sort(sl)`.  Insertion sort by a key. *)
Section Sort.
  Context {A K : Type} (key : A -> K) (leb : K -> K -> bool).
  Fixpoint insert_sorted (x : A) (l : list A) : list A :=
    match l with
    | [] => [x]
    | y :: t => if leb (key x) (key y) then x :: l else y :: insert_sorted x t
    end.
  Definition isort (l : list A) : list A := fold_right insert_sorted [] l.
End Sort.

Definition collect_act {B A : Type} (f : B -> A) (b : B) (sl : list A) : list A := sl ++ [f b].

(* map_write_only: `m2[k] = v`.  A Go map is an association list, newest binding first, observed
   through lookup only. *)
Section AMap.
  Context {K V : Type} (eqb : K -> K -> bool).
  Definition amap := list (K * V).
  Fixpoint alook (k : K) (m : amap) : option V :=
    match m with
    | [] => None
    | (k', v) :: t => if eqb k k' then Some v else alook k t
    end.
  Definition ains (b : K * V) (m : amap) : amap := b :: m.
  Definition amap_eq (m m' : amap) : Prop := forall k, alook k m = alook k m'.

  (* insert_or_fail: `if _, ok := m2[k]; ok { return err }; m2[k] = v` (None = the run failed; a
     failed run produces no output, so all failed states are the same observation) *)
  Definition ains_new (b : K * V) (m : option amap) : option amap :=
    match m with
    | None => None
    | Some m0 => match alook (fst b) m0 with Some _ => None | None => Some (b :: m0) end
    end.
  Definition oamap_eq (m m' : option amap) : Prop :=
    match m, m' with
    | None, None => True
    | Some a, Some b => amap_eq a b
    | _, _ => False
    end.
End AMap.

(* commutative_reduce: `acc = op acc (g b)` (counters, flags, min/max, "is there an element...") *)
Definition reduce_act {B R : Type} (op : R -> R -> R) (g : B -> R) (b : B) (acc : R) : R := op acc (g b).

(* error_only: the loop only records that something is wrong; observed as failed / not failed *)
Definition error_act {B : Type} (bad : B -> bool) (b : B) (failed : bool) : bool := failed || bad b.

(* unique_select: `if guard b { x = g b }` (last one wins) *)
Definition select_act {B V : Type} (guard : B -> bool) (g : B -> V) (b : B) (x : option V) : option V :=
  if guard b then Some (g b) else x.

(* two effects on separate parts of the state *)
Definition prod_act {B S1 S2 : Type} (a1 : B -> S1 -> S1) (a2 : B -> S2 -> S2) (b : B) (s : S1 * S2) : S1 * S2 :=
  (a1 b (fst s), a2 b (snd s)).

Definition prod_rel {S1 S2 : Type} (R1 : S1 -> S1 -> Prop) (R2 : S2 -> S2 -> Prop) (s s' : S1 * S2) : Prop :=
  R1 (fst s) (fst s') /\ R2 (snd s) (snd s').

(* ------------------------------------------------------------------ stages and pipelines *)

Section Pipeline.
  Context {S B K : Type}.
  Variable key : B -> K.

  Record stage := {
    st_src : S -> list B;       (* the bindings of the map the loop ranges over (keys distinct) *)
    st_act : B -> S -> S;       (* the loop body *)
    st_post : S -> S            (* the code up to the next map range *)
  }.

  Record is_equiv (R : S -> S -> Prop) : Prop := {
    equiv_refl : forall s, R s s;
    equiv_sym : forall s s', R s s' -> R s' s;
    equiv_trans : forall s s' s'', R s s' -> R s' s'' -> R s s''
  }.

  (* the body respects the equivalence, and the bodies of two different bindings commute *)
  Definition respects (R : S -> S -> Prop) (act : B -> S -> S) : Prop :=
    forall b s s', R s s' -> R (act b s) (act b s').
  Definition commutes_on (R : S -> S -> Prop) (act : B -> S -> S) (l : list B) : Prop :=
    forall b b' s, In b l -> In b' l -> key b <> key b' -> R (act b (act b' s)) (act b' (act b s)).

  (* A stage is insensitive to the iteration order if there is an equivalence eqM on the states
     inside the loop (e.g. "the slice is a permutation of") that is coarser than the observable
     equivalence eqS, is respected by the body, makes bodies of distinct bindings commute, and is
     mapped back into eqS by the continuation (e.g. sorting). *)
  Definition stage_ok (eqS : S -> S -> Prop) (st : stage) : Prop :=
    (exists eqM : S -> S -> Prop,
        is_equiv eqM /\
        (forall s s', eqS s s' -> eqM s s') /\
        respects eqM (st_act st) /\
        (forall s, commutes_on eqM (st_act st) (st_src st s)) /\
        (forall s s', eqM s s' -> eqS (st_post st s) (st_post st s'))) /\
    (forall s, NoDup (map key (st_src st s))) /\
    (forall s s', eqS s s' -> Permutation (st_src st s) (st_src st s')).

  (* One run of a pipeline: every stage iterates over SOME permutation of its bindings. *)
  Inductive runs : list stage -> S -> S -> Prop :=
  | runs_nil : forall s, runs [] s s
  | runs_cons : forall st rest s l o,
      Permutation l (st_src st s) ->
      runs rest (st_post st (fold_bind (st_act st) l s)) o ->
      runs (st :: rest) s o.
End Pipeline.

Arguments stage S B : clear implicits.
Arguments st_src {S B} _ _.
Arguments st_act {S B} _ _ _.
Arguments st_post {S B} _ _.

(* ------------------------------------------------------------------ the translator's table *)

Inductive sclass :=
  (* accepted by the classifier alone *)
  | collect_then_sort      (* only appends to slices that are sorted (natural order) before any other use *)
  | map_write_only         (* only m2[k] = pure / delete under the range key, or insertion of one constant *)
  | commutative_reduce     (* counters, constant flags, "exists" returns; or no effect at all *)
  | error_only             (* only reports errors (no output is produced on error) *)
  | insert_or_fail         (* if _, ok := m2[x]; ok { fail }; m2[x] = v *)
  | singleton              (* only executed when the map has exactly one binding *)
  | enumerate              (* returns the bindings as a slice, in iteration order: every use of the result is a site *)
  (* need a reviewed allow-list entry *)
  | unique_select          (* x = f(element) / break / return element: last or first one wins *)
  | collect_then_sort_by   (* sorted with a caller-supplied comparison: the keys must be distinct *)
  | map_write_derived_key  (* m2[f(element)] = ...: f must be injective on the bindings *)
  | recursive_or_call      (* calls a function with effects *)
  | order_sensitive.       (* anything else *)

Definition class_accepted (c : sclass) : bool :=
  match c with
  | collect_then_sort | map_write_only | commutative_reduce | error_only
  | insert_or_fail | singleton | enumerate => true
  | _ => false
  end.

Record site := {
  s_pkg : str;
  s_func : str;
  s_line : N;
  s_class : sclass;
  s_body_hash : str;     (* hash of the normalised loop body *)
  s_func_hash : str      (* hash of the normalised enclosing function *)
}.

(* /verif/maprange_allow.json: keyed by (package, function, body hash); a_func_hash pins the
   whole function when the justification uses code around the loop. *)
Record allow_entry := {
  a_pkg : str;
  a_func : str;
  a_body_hash : str;
  a_func_hash : option str
}.

Definition allow_matches (a : allow_entry) (s : site) : bool :=
  str_eqb (a_pkg a) (s_pkg s) && str_eqb (a_func a) (s_func s) &&
  str_eqb (a_body_hash a) (s_body_hash s) &&
  match a_func_hash a with None => true | Some h => str_eqb h (s_func_hash s) end.

Definition allowed (l : list allow_entry) (s : site) : bool := existsb (fun a => allow_matches a s) l.

Definition site_ok (allow : list allow_entry) (s : site) : bool :=
  class_accepted (s_class s) || allowed allow s.

(* [known]: sites that ARE order sensitive and are reported as known findings *)
Definition sites_ok (allow known : list allow_entry) (sites : list site) : bool :=
  forallb (fun s => site_ok allow s || allowed known s) sites.

Definition open_sites (allow : list allow_entry) (sites : list site) : list site :=
  filter (fun s => negb (site_ok allow s)) sites.
