(* FieldTag.v — model of protogen.fieldTag (protogen/protogen.go) and of hash/fnv's 32-bit FNV-1.
   Definitions only; proofs are in FieldTagProofs.v.

   Strings enter this file as lists of BYTES (the UTF-8 encoding), because the hash is taken over
   []byte(s). *)
From Ygot Require Import Base.Base.

Definition bytes := list N.

(* hash/fnv: offset32 = 2166136261, prime32 = 16777619; New32 is FNV-1:
     for _, c := range data { hash *= prime32; hash ^= sum32(c) }      (uint32 arithmetic) *)
Definition fnv_offset32 : N := 2166136261.
Definition fnv_prime32 : N := 16777619.
Definition two32 : N := 4294967296.

Definition fnv1_step (h c : N) : N := N.lxor ((h * fnv_prime32) mod two32) c.
Definition fnv1_32 (bs : bytes) : N := fold_left fnv1_step bs fnv_offset32.

(* fieldTag:
     v := h.Sum32() & 0x1fffffff // 2^29-1
     if (v >= 19000 && v <= 19999) || (v >= 1 && v <= 1000) { return fieldTag(fmt.Sprintf("%s_", s)) }
     return v, nil                                                                                  *)
Definition tag_mask : N := 536870911.          (* 0x1fffffff = 2^29-1 *)
Definition tag_retry (v : N) : bool :=
  ((19000 <=? v) && (v <=? 19999)) || ((1 <=? v) && (v <=? 1000)).
Definition masked_hash (s : bytes) : N := N.land (fnv1_32 s) tag_mask.
Definition underscore : N := 95.

(* The Go function recurses without bound; the model takes fuel, None = out of fuel. The error
   result of fieldTag only arises from hash.Write, which never fails, and is not modelled. *)
Fixpoint field_tag (fuel : nat) (s : bytes) : option N :=
  match fuel with
  | O => None
  | S f =>
      let v := masked_hash s in
      if tag_retry v then field_tag f (s ++ [underscore]) else Some v
  end.

(* What is hashed (callers of fieldTag):
   - protoTagForEntry: the YANG schema path of the field (ygen YANGNodeDetails.Path);
   - unionFieldToOneOf: <path>_<lower-cased proto type name> for each member of a oneof;
   - writeProtoEnums: <base identity name><identity name> for each value of an identity enum. *)
Definition oneof_tag_input (path tn : bytes) : bytes := path ++ underscore :: tn.
Definition identity_tag_input (base name : bytes) : bytes := base ++ name.

(* Legal proto field numbers. *)
Definition field_number_okb (v : N) : bool :=
  (1 <=? v) && (v <=? tag_mask) && negb ((19000 <=? v) && (v <=? 19999)).

(* The numbers fieldTag can return: 0 is not excluded by the code. *)
Definition tag_value_okb (v : N) : bool :=
  (v =? 0) || ((1001 <=? v) && (v <=? tag_mask) && negb ((19000 <=? v) && (v <=? 19999))).

Definition default_fuel : nat := 64.
