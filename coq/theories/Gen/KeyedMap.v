(* KeyedMap.v — model of the helper methods gogen emits on the parent struct of a keyed
   (ordered-by system) YANG list, whose field is a Go map `L map[K]*E`:
     gogen/unordered_list.go  goNewListMemberTemplate           NewL
                              goGetOrCreateListTemplate         GetOrCreateLMap
                              goGetOrCreateListElementTemplate  GetOrCreateL
                              goListGetterTemplate              GetL
                              goDeleteListTemplate              DeleteL
                              goListAppendTemplate              AppendL
                              goListMemberRenameTemplate        RenameL
   Definitions only (proofs: KeyedMapProofs.v, statements: Properties/C34.v).

   Abstractions (Section variables; every theorem holds for every list and key type):
     K       the Go map key type: the key leaf's Go type, or the generated L_Key struct
     keq     Go == on K (for wrapper unions K is an interface holding a pointer to a wrapper
             struct, so == is pointer identity — see yval in KeyedMapProofs.v)
     V       the contents of an entry struct (a pointer to E is modelled by the value it points
             to; the map stores what the caller's pointer points to at the time of the call)
     keyof   the key AppendL computes from the entry: None when one of the pointer-typed key
             fields is nil ("invalid nil key"); the template emits that check only for key fields
             with IsScalarField, an enum or union key field is copied as it is (zero value / nil
             interface included), so for such lists keyof never returns None
     setkey  the assignments `e.K = &newK` (or `e.K = newK`) of RenameL
     T, mk   mk k t is the struct literal &E{key fields from the arguments} of NewL; t is an
             allocation tag used by the correspondence check to name the new pointer. *)
From Ygot Require Import Base.Base Gen.GoMap.

Section KeyedMap.
  Variables K V T : Type.
  Variable keq : K -> K -> bool.
  Variable keyof : V -> option K.
  Variable setkey : K -> V -> V.
  Variable mk : K -> T -> V.

  (* the parent's field: None = nil map *)
  Definition kstate := option (list (K * V)).
  (* reading a nil map behaves as reading the empty map; `if t.L == nil { t.L = make(...) }` *)
  Definition k_alloc (s : kstate) : list (K * V) := match s with None => [] | Some m => m end.

  Inductive kop :=
  | KNew (k : K) (t : T)
  | KGetOrCreate (k : K) (t : T)
  | KGet (k : K)
  | KAppend (e : option V)        (* None = nil entry pointer *)
  | KDelete (k : K)
  | KRename (old new : K)
  | KGetOrCreateMap.

  (* Ok None: nothing returned (nil error, or a nil entry from Get); Ok (Some v): an entry;
     Err: non-nil error; Panic: run-time panic *)
  Definition kout := result (option V).

  Definition k_new (s : kstate) (k : K) (t : T) : kstate * kout :=
    let m := k_alloc s in
    if gm_mem keq k m then (Some m, Err)                     (* "duplicate key" *)
    else (Some (gm_set keq k (mk k t) m), Ok (Some (mk k t))).

  Definition k_getorcreate (s : kstate) (k : K) (t : T) : kstate * kout :=
    match gm_get keq k (k_alloc s) with
    | Some v => (s, Ok (Some v))
    | None =>
        match k_new s k t with
        | (s', Ok r) => (s', Ok r)
        | (s', _) => (s', Panic)                             (* panic("GetOrCreateL got unexpected error") *)
        end
    end.

  Definition k_get (s : kstate) (k : K) : kstate * kout := (s, Ok (gm_get keq k (k_alloc s))).

  Definition k_delete (s : kstate) (k : K) : kstate * kout :=
    match s with
    | None => (None, Ok None)                                (* delete on a nil map is a no-op *)
    | Some m => (Some (gm_del keq k m), Ok None)
    end.

  Definition k_append (s : kstate) (e : option V) : kstate * kout :=
    match e with
    | None => (s, Panic)                                     (* v.K on a nil v *)
    | Some v =>
        match keyof v with
        | None => (s, Err)                                   (* "invalid nil key", before the map is made *)
        | Some k =>
            let m := k_alloc s in
            if gm_mem keq k m then (Some m, Err)             (* "duplicate key" *)
            else (Some (gm_set keq k v m), Ok None)
        end
    end.

  Definition k_rename (s : kstate) (old new : K) : kstate * kout :=
    let m := k_alloc s in
    if gm_mem keq new m then (s, Err)                        (* "key already exists" (also old = new) *)
    else match gm_get keq old m with
         | None => (s, Err)                                  (* "key not found" *)
         | Some e => (Some (gm_del keq old (gm_set keq new (setkey new e) m)), Ok None)
         end.

  Definition kstep (s : kstate) (op : kop) : kstate * kout :=
    match op with
    | KNew k t => k_new s k t
    | KGetOrCreate k t => k_getorcreate s k t
    | KGet k => k_get s k
    | KAppend e => k_append s e
    | KDelete k => k_delete s k
    | KRename o n => k_rename s o n
    | KGetOrCreateMap => (Some (k_alloc s), Ok None)
    end.

  Fixpoint krun (s : kstate) (ops : list kop) : kstate * list kout :=
    match ops with
    | [] => (s, [])
    | op :: r =>
        let (s1, o) := kstep s op in
        let (s2, os) := krun s1 r in (s2, o :: os)
    end.

  Definition klookup (k : K) (s : kstate) : option V := gm_get keq k (k_alloc s).

  (* ------------------------------------------------------------------ the specification:
     a finite map from keys to entries, as a function K -> option V *)
  Definition amap := K -> option V.
  Definition am_empty : amap := fun _ => None.
  Definition am_upd (f : amap) (k : K) (v : V) : amap := fun k' => if keq k' k then Some v else f k'.
  Definition am_rem (f : amap) (k : K) : amap := fun k' => if keq k' k then None else f k'.

  Definition kastep (f : amap) (op : kop) : amap * kout :=
    match op with
    | KNew k t =>
        match f k with Some _ => (f, Err) | None => (am_upd f k (mk k t), Ok (Some (mk k t))) end
    | KGetOrCreate k t =>
        match f k with Some v => (f, Ok (Some v)) | None => (am_upd f k (mk k t), Ok (Some (mk k t))) end
    | KGet k => (f, Ok (f k))
    | KAppend None => (f, Panic)
    | KAppend (Some v) =>
        match keyof v with
        | None => (f, Err)
        | Some k => match f k with Some _ => (f, Err) | None => (am_upd f k v, Ok None) end
        end
    | KDelete k => (am_rem f k, Ok None)
    | KRename o n =>
        match f n, f o with
        | None, Some e => (am_rem (am_upd f n (setkey n e)) o, Ok None)
        | _, _ => (f, Err)
        end
    | KGetOrCreateMap => (f, Ok None)
    end.

  Fixpoint karun (f : amap) (ops : list kop) : amap * list kout :=
    match ops with
    | [] => (f, [])
    | op :: r =>
        let (f1, o) := kastep f op in
        let (f2, os) := karun f1 r in (f2, o :: os)
    end.

  Definition is_new_or_append (op : kop) : bool :=
    match op with KNew _ _ | KAppend _ => true | _ => false end.
End KeyedMap.

Arguments KNew {K V T} k t.
Arguments KGetOrCreate {K V T} k t.
Arguments KGet {K V T} k.
Arguments KAppend {K V T} e.
Arguments KDelete {K V T} k.
Arguments KRename {K V T} old new.
Arguments KGetOrCreateMap {K V T}.
